// Package wuffsym is the engine's own interpreter of Wuffs semantics over symbolic terms, used as
// the reference side of translation validation (C04). It executes the *checked AST* of a Wuffs
// file (dumped as JSON by helpers/wprobe, which runs the tree's tokenizer, parser and checker) and
// is written from the language documentation (doc/wuffs-the-language.md, doc/note/...), not from
// internal/cgen: ideal integers for the non-modular operators (the checker has proven that their
// results fit the expression's type, so they are computed modulo 2^64 on values that are in
// range), "~mod" operators wrap at the width of the operand type, "~sat" operators clamp to it,
// variables are zero-initialised, statements run in order, "and"/"or" have pure operands.
//
// Execution is path-merging: every assignment is guarded by the activity condition of the current
// control-flow position, so a function yields one term per observable (return value, receiver
// fields) with no forking. Loops are unrolled; an unwinding obligation is handed to the caller.
package wuffsym

import (
	"encoding/json"
	"fmt"
	"math/big"

	"verif/engine/sym"
)

type Type struct {
	K    string `json:"k"`
	Name string `json:"name"`
	Str  string `json:"str"`
	Min  string `json:"min"`
	Max  string `json:"max"`
	Len  string `json:"len"`
	Elem *Type  `json:"elem"`
}

type Expr struct {
	Op     string  `json:"op"`
	Sym    string  `json:"sym"`
	Ident  string  `json:"ident"`
	Const  *string `json:"const"`
	Str    string  `json:"str"`
	Type   *Type   `json:"type"`
	ToType *Type   `json:"totype"`
	LHS    *Expr   `json:"lhs"`
	MHS    *Expr   `json:"mhs"`
	RHS    *Expr   `json:"rhs"`
	Args   []json.RawMessage `json:"args"`
	Effect string  `json:"effect"`
}

type Arg struct {
	Name  string `json:"name"`
	Value *Expr  `json:"value"`
}

type Stmt struct {
	S     string  `json:"s"`
	Name  string  `json:"name"`
	Type  *Type   `json:"type"`
	Op    string  `json:"op"`
	LHS   *Expr   `json:"lhs"`
	RHS   *Expr   `json:"rhs"`
	Cond  *Expr   `json:"cond"`
	Then  []*Stmt `json:"then"`
	Else  []*Stmt `json:"else"`
	Label string  `json:"label"`
	Body  []*Stmt `json:"body"`
	Kw    string  `json:"kw"`
	Value *Expr   `json:"value"`
	What  string  `json:"what"`
}

type Field struct {
	Name string `json:"name"`
	Type *Type  `json:"type"`
}

type Func struct {
	Name   string  `json:"name"`
	Recv   string  `json:"recv"`
	Effect string  `json:"effect"`
	Public bool    `json:"public"`
	Args   []Field `json:"args"`
	Out    *Type   `json:"out"`
	Body   []*Stmt `json:"body"`
}

type Struct struct {
	Name   string  `json:"name"`
	Fields []Field `json:"fields"`
}

type File struct {
	Structs []Struct `json:"structs"`
	Funcs   []*Func  `json:"funcs"`
}

func Load(b []byte) (*File, error) {
	f := &File{}
	if err := json.Unmarshal(b, f); err != nil {
		return nil, err
	}
	return f, nil
}

func (f *File) Func(name string) *Func {
	for _, fn := range f.Funcs {
		if fn.Name == name {
			return fn
		}
	}
	return nil
}

// Value is a number (64-bit term holding an in-range value of its Wuffs type), a boolean or an
// array of values.
type Value struct {
	T    *sym.Term   // numbers: width 64; booleans: Bool term
	Elts []*sym.Term // arrays of numbers
	Arr  bool
}

// State is the receiver: field name -> value.
type State map[string]*Value

type Unsupported struct{ Msg string }

func (u Unsupported) Error() string { return "wuffsym: unsupported: " + u.Msg }

func unsup(format string, a ...interface{}) { panic(Unsupported{fmt.Sprintf(format, a...)}) }

type frame struct {
	fn     *Func
	vars   map[string]*Value
	args   map[string]*Value
	active *sym.Term
	ret    *sym.Term
	brk    map[string]*sym.Term
	cont   map[string]*sym.Term
}

type Interp struct {
	File   *File
	State  State
	Unwind int
	// Obligation receives "the loop has ended after Unwind iterations" conditions.
	Obligation func(cond *sym.Term, label string)
	Funcs      map[string]bool // functions interpreted (evidence)
	depth      int
}

func bits(t *Type) int {
	if t == nil || t.K != "num" {
		unsup("not a numeric type: %+v", t)
	}
	switch t.Name {
	case "u8":
		return 8
	case "u16":
		return 16
	case "u32":
		return 32
	case "u64":
		return 64
	}
	unsup("numeric type %s (only unsigned integers are modelled)", t.Name)
	return 0
}

func maskOf(w int) *sym.Term {
	if w == 64 {
		return sym.BV(^uint64(0), 64)
	}
	return sym.BV((uint64(1)<<uint(w))-1, 64)
}

func zeroOf(t *Type) *Value {
	switch t.K {
	case "num":
		bits(t)
		lo := uint64(0)
		if t.Min != "" {
			lo = constU64(t.Min)
			if lo != 0 {
				unsup("a refinement that excludes zero: %s", t.Str)
			}
		}
		return &Value{T: sym.BV(0, 64)}
	case "bool":
		return &Value{T: sym.False}
	case "array":
		n := int(constU64(t.Len))
		if t.Elem == nil || t.Elem.K != "num" {
			unsup("array element type %v", t.Elem)
		}
		v := &Value{Arr: true, Elts: make([]*sym.Term, n)}
		for i := range v.Elts {
			v.Elts[i] = sym.BV(0, 64)
		}
		return v
	}
	unsup("type %s", t.Str)
	return nil
}

func constU64(s string) uint64 {
	z, ok := new(big.Int).SetString(s, 10)
	if !ok || z.Sign() < 0 || z.BitLen() > 64 {
		unsup("constant %s outside 0..2^64-1", s)
	}
	return z.Uint64()
}

// NewState makes a zeroed receiver for struct name.
func (f *File) NewState(name string) State {
	st := State{}
	for _, s := range f.Structs {
		if s.Name == name {
			for _, fl := range s.Fields {
				st[fl.Name] = zeroOf(fl.Type)
			}
		}
	}
	return st
}

// Call runs function name on the current state; args are 64-bit terms in declaration order.
// It returns the result (nil for no result) or an Unsupported error.
func (in *Interp) Call(name string, args []*sym.Term) (res *sym.Term, err error) {
	defer func() {
		if r := recover(); r != nil {
			if u, ok := r.(Unsupported); ok {
				err = u
				return
			}
			panic(r)
		}
	}()
	fn := in.File.Func(name)
	if fn == nil {
		unsup("no function %s", name)
	}
	if len(args) < len(fn.Args) {
		unsup("%s: %d arguments given, %d wanted", name, len(args), len(fn.Args))
	}
	var vals []*Value
	for i := range fn.Args {
		vals = append(vals, &Value{T: args[i]})
	}
	return in.run(fn, vals, sym.True), nil
}

func (in *Interp) run(fn *Func, args []*Value, active *sym.Term) *sym.Term {
	if in.depth > 8 {
		unsup("call depth")
	}
	if fn.Effect == "?" {
		unsup("coroutine %s", fn.Name)
	}
	in.depth++
	defer func() { in.depth-- }()
	if in.Funcs != nil {
		in.Funcs[fn.Name] = true
	}
	fr := &frame{fn: fn, vars: map[string]*Value{}, args: map[string]*Value{}, active: active, brk: map[string]*sym.Term{}, cont: map[string]*sym.Term{}}
	for i, a := range fn.Args {
		fr.args[a.Name] = args[i]
	}
	if fn.Out != nil {
		switch fn.Out.K {
		case "num":
			fr.ret = sym.BV(0, 64)
		case "bool":
			fr.ret = sym.False
		default:
			unsup("result type %s", fn.Out.Str)
		}
	}
	in.block(fr, fn.Body)
	return fr.ret
}

func (in *Interp) block(fr *frame, body []*Stmt) {
	for _, s := range body {
		if fr.active.IsFalse() {
			return
		}
		in.stmt(fr, s)
	}
}

func ite(c, a, b *sym.Term) *sym.Term {
	if c.IsTrue() {
		return a
	}
	if c.IsFalse() {
		return b
	}
	return sym.Ite(c, a, b)
}

func (in *Interp) stmt(fr *frame, s *Stmt) {
	switch s.S {
	case "var":
		fr.vars[s.Name] = zeroOf(s.Type)
	case "assign":
		in.assign(fr, s)
	case "if":
		c := in.boolean(fr, s.Cond)
		a0 := fr.active
		fr.active = sym.And(a0, c)
		in.block(fr, s.Then)
		aThen := fr.active
		fr.active = sym.And(a0, sym.Not(c))
		in.block(fr, s.Else)
		fr.active = sym.Or(aThen, fr.active)
	case "while":
		after := sym.False
		for k := 0; ; k++ {
			c := in.boolean(fr, s.Cond)
			after = sym.Or(after, sym.And(fr.active, sym.Not(c)))
			it := sym.And(fr.active, c)
			if it.IsFalse() {
				break
			}
			if k >= in.Unwind {
				if in.Obligation == nil {
					unsup("loop in %s not finished after %d iterations", fr.fn.Name, k)
				}
				in.Obligation(sym.Not(it), fmt.Sprintf("spec/unwinding[%s]", fr.fn.Name))
				break
			}
			fr.active = it
			in.block(fr, s.Body)
			if s.Label != "" {
				if c := fr.cont[s.Label]; c != nil {
					fr.active = sym.Or(fr.active, c)
					delete(fr.cont, s.Label)
				}
				if b := fr.brk[s.Label]; b != nil {
					after = sym.Or(after, b)
					delete(fr.brk, s.Label)
				}
			}
			if c := fr.cont[""]; c != nil {
				fr.active = sym.Or(fr.active, c)
				delete(fr.cont, "")
			}
			if b := fr.brk[""]; b != nil {
				after = sym.Or(after, b)
				delete(fr.brk, "")
			}
		}
		fr.active = after
	case "jump":
		// an unlabelled jump targets the innermost loop: "" is resolved by the innermost loop first
		m := fr.brk
		if s.Kw == "continue" {
			m = fr.cont
		} else if s.Kw != "break" {
			unsup("jump %s", s.Kw)
		}
		if old := m[s.Label]; old != nil {
			m[s.Label] = sym.Or(old, fr.active)
		} else {
			m[s.Label] = fr.active
		}
		fr.active = sym.False
	case "ret":
		if s.Kw != "return" {
			unsup("%s", s.Kw)
		}
		if s.Value != nil && fr.ret != nil {
			var v *sym.Term
			if fr.fn.Out.K == "bool" {
				v = in.boolean(fr, s.Value)
			} else {
				v = in.num(fr, s.Value)
			}
			fr.ret = ite(fr.active, v, fr.ret)
		}
		fr.active = sym.False
	default:
		unsup("statement %s %s", s.S, s.What)
	}
}

// Unlabelled jumps inside a labelled loop: the dump gives every jump the label written in the
// source; Wuffs requires a label on a jump exactly when the loop has one, so "" only ever refers to
// an unlabelled innermost loop.

func (in *Interp) assign(fr *frame, s *Stmt) {
	if s.LHS == nil {
		// a bare call statement
		in.eval(fr, s.RHS)
		return
	}
	lt := s.LHS.Type
	var newv *sym.Term
	isBool := lt != nil && lt.K == "bool"
	if s.Op == "=" {
		if isBool {
			newv = in.boolean(fr, s.RHS)
		} else if lt != nil && lt.K == "num" {
			newv = in.num(fr, s.RHS)
		} else {
			unsup("assignment to a value of type %v", lt)
		}
	} else {
		if isBool {
			unsup("compound assignment on bool")
		}
		// "x op= y" means "x = x op y" with the operator's semantics at x's type
		op := s.Op[:len(s.Op)-1]
		r := in.num(fr, s.RHS)
		l := in.num(fr, s.LHS)
		newv = binop(op, l, r, bits(lt))
	}
	in.store(fr, s.LHS, newv)
}

func (in *Interp) store(fr *frame, lhs *Expr, v *sym.Term) {
	switch lhs.Op {
	case "ident":
		old, ok := fr.vars[lhs.Ident]
		if !ok {
			unsup("assignment to %s", lhs.Ident)
		}
		fr.vars[lhs.Ident] = &Value{T: ite(fr.active, v, old.T)}
	case ".":
		if lhs.LHS.Op != "ident" || lhs.LHS.Ident != "this" {
			unsup("assignment to %s", lhs.Str)
		}
		old, ok := in.State[lhs.Ident]
		if !ok {
			unsup("no field %s", lhs.Ident)
		}
		in.State[lhs.Ident] = &Value{T: ite(fr.active, v, old.T)}
	case "index":
		arr := in.arrayRef(fr, lhs.LHS)
		idx := in.num(fr, lhs.RHS)
		ne := make([]*sym.Term, len(arr.Elts))
		for j := range arr.Elts {
			hit := sym.And(fr.active, sym.Eq(idx, sym.BV(uint64(j), 64)))
			ne[j] = ite(hit, v, arr.Elts[j])
		}
		in.setArray(fr, lhs.LHS, &Value{Arr: true, Elts: ne})
	default:
		unsup("assignment to %s", lhs.Str)
	}
}

func (in *Interp) arrayRef(fr *frame, e *Expr) *Value {
	var v *Value
	switch {
	case e.Op == "ident":
		v = fr.vars[e.Ident]
	case e.Op == "." && e.LHS.Op == "ident" && e.LHS.Ident == "this":
		v = in.State[e.Ident]
	}
	if v == nil || !v.Arr {
		unsup("array expression %s", e.Str)
	}
	return v
}

func (in *Interp) setArray(fr *frame, e *Expr, v *Value) {
	if e.Op == "ident" {
		fr.vars[e.Ident] = v
	} else {
		in.State[e.Ident] = v
	}
}

func (in *Interp) boolean(fr *frame, e *Expr) *sym.Term {
	v := in.eval(fr, e)
	if v == nil || v.Arr || !v.T.IsBool() {
		unsup("boolean expected: %s", e.Str)
	}
	return v.T
}

func (in *Interp) num(fr *frame, e *Expr) *sym.Term {
	v := in.eval(fr, e)
	if v == nil || v.Arr || v.T.IsBool() {
		unsup("number expected: %s", e.Str)
	}
	return v.T
}

func b2t(c *sym.Term) *Value { return &Value{T: c} }

func (in *Interp) eval(fr *frame, e *Expr) *Value {
	if e.Const != nil {
		if e.Type != nil && e.Type.K == "bool" {
			return b2t(sym.Bool(*e.Const != "0"))
		}
		return &Value{T: sym.BV(constU64(*e.Const), 64)}
	}
	switch e.Op {
	case "ident":
		if v, ok := fr.vars[e.Ident]; ok {
			return v
		}
		unsup("identifier %s", e.Ident)
	case ".":
		if e.LHS.Op == "ident" {
			switch e.LHS.Ident {
			case "args":
				if v, ok := fr.args[e.Ident]; ok {
					return v
				}
			case "this":
				if v, ok := in.State[e.Ident]; ok {
					return v
				}
			}
		}
		unsup("selector %s", e.Str)
	case "index":
		arr := in.arrayRef(fr, e.LHS)
		idx := in.num(fr, e.RHS)
		if len(arr.Elts) == 0 {
			unsup("index into an empty array")
		}
		r := arr.Elts[len(arr.Elts)-1]
		for j := len(arr.Elts) - 2; j >= 0; j-- {
			r = ite(sym.Eq(idx, sym.BV(uint64(j), 64)), arr.Elts[j], r)
		}
		return &Value{T: r}
	case "as":
		// conversions never change the value: the checker accepts them only when the value fits
		if e.ToType == nil || e.ToType.K != "num" {
			unsup("conversion %s", e.Str)
		}
		bits(e.ToType)
		return &Value{T: in.num(fr, e.LHS)}
	case "unary":
		switch e.Sym {
		case "not":
			return b2t(sym.Not(in.boolean(fr, e.RHS)))
		case "+":
			return &Value{T: in.num(fr, e.RHS)}
		}
		unsup("unary %s", e.Sym)
	case "binary":
		switch e.Sym {
		case "==", "<>", "<", "<=", ">", ">=":
			if e.LHS.Type != nil && e.LHS.Type.K == "bool" {
				l, r := in.boolean(fr, e.LHS), in.boolean(fr, e.RHS)
				eq := sym.Eq(l, r)
				if e.Sym == "==" {
					return b2t(eq)
				} else if e.Sym == "<>" {
					return b2t(sym.Not(eq))
				}
				unsup("ordering of booleans")
			}
			l, r := in.num(fr, e.LHS), in.num(fr, e.RHS)
			switch e.Sym {
			case "==":
				return b2t(sym.Eq(l, r))
			case "<>":
				return b2t(sym.Not(sym.Eq(l, r)))
			case "<":
				return b2t(sym.ULT(l, r))
			case "<=":
				return b2t(sym.ULE(l, r))
			case ">":
				return b2t(sym.UGT(l, r))
			default:
				return b2t(sym.UGE(l, r))
			}
		case "and":
			return b2t(sym.And(in.boolean(fr, e.LHS), in.boolean(fr, e.RHS)))
		case "or":
			return b2t(sym.Or(in.boolean(fr, e.LHS), in.boolean(fr, e.RHS)))
		}
		l, r := in.num(fr, e.LHS), in.num(fr, e.RHS)
		w := 64
		if e.Type != nil && e.Type.K == "num" {
			w = bits(e.Type)
		} else if len(e.Sym) > 0 && e.Sym[0] == '~' {
			unsup("%s on a non-numeric type", e.Sym)
		}
		return &Value{T: binop(e.Sym, l, r, w)}
	case "assoc":
		var vals []*Value
		for _, raw := range e.Args {
			sub := &Expr{}
			if err := json.Unmarshal(raw, sub); err != nil {
				unsup("malformed operand list")
			}
			vals = append(vals, in.eval(fr, sub))
		}
		acc := vals[0].T
		for _, v := range vals[1:] {
			switch e.Sym {
			case "and":
				acc = sym.And(acc, v.T)
			case "or":
				acc = sym.Or(acc, v.T)
			case "+", "*", "&", "|", "^":
				acc = binop(e.Sym, acc, v.T, 64)
			default:
				unsup("associative %s", e.Sym)
			}
		}
		return &Value{T: acc}
	case "call":
		return in.call(fr, e)
	}
	unsup("expression %s (%s)", e.Str, e.Op)
	return nil
}

// binop gives the meaning of a binary operator on in-range operands of a w-bit unsigned type.
func binop(op string, l, r *sym.Term, w int) *sym.Term {
	m := maskOf(w)
	if w == 64 {
		// wrapping at 64 bits is what the 64-bit terms do by themselves
		switch op {
		case "~mod+":
			return sym.Add(l, r)
		case "~mod-":
			return sym.Sub(l, r)
		case "~mod*":
			return sym.Mul(l, r)
		case "~mod<<":
			return sym.Shl(l, r)
		}
	}
	switch op {
	case "+":
		return sym.Add(l, r)
	case "-":
		return sym.Sub(l, r)
	case "*":
		return sym.Mul(l, r)
	case "/":
		return sym.UDiv(l, r)
	case "%":
		return sym.URem(l, r)
	case "<<":
		return sym.Shl(l, r)
	case ">>":
		return sym.LShr(l, r)
	case "&":
		return sym.BAnd(l, r)
	case "|":
		return sym.BOr(l, r)
	case "^":
		return sym.BXor(l, r)
	case "~mod+":
		return sym.BAnd(sym.Add(l, r), m)
	case "~mod-":
		return sym.BAnd(sym.Sub(l, r), m)
	case "~mod*":
		return sym.BAnd(sym.Mul(l, r), m)
	case "~mod<<":
		return sym.BAnd(sym.Shl(l, r), m)
	case "~sat+":
		s := sym.Add(l, r)
		if w == 64 {
			return ite(sym.ULT(s, l), m, s)
		}
		return ite(sym.UGT(s, m), m, s)
	case "~sat-":
		return ite(sym.ULT(l, r), sym.BV(0, 64), sym.Sub(l, r))
	}
	unsup("operator %s", op)
	return nil
}

func (in *Interp) call(fr *frame, e *Expr) *Value {
	callee := e.LHS
	if callee == nil || callee.Op != "." {
		unsup("call %s", e.Str)
	}
	var args []Arg
	for _, raw := range e.Args {
		a := Arg{}
		if err := json.Unmarshal(raw, &a); err != nil {
			unsup("malformed argument list")
		}
		args = append(args, a)
	}
	recv := callee.LHS
	// method of the receiver struct
	if recv.Op == "ident" && recv.Ident == "this" {
		fn := in.File.Func(callee.Ident)
		if fn == nil {
			unsup("call of %s", e.Str)
		}
		var vals []*Value
		for i, a := range args {
			if i >= len(fn.Args) || fn.Args[i].Name != a.Name {
				unsup("argument order in %s", e.Str)
			}
			vals = append(vals, in.eval(fr, a.Value))
		}
		r := in.run(fn, vals, fr.active)
		if r == nil {
			return nil
		}
		return &Value{T: r}
	}
	// built-in methods of numeric types
	if recv.Type != nil && recv.Type.K == "num" {
		w := bits(recv.Type)
		x := in.num(fr, recv)
		if len(args) != 1 {
			unsup("call %s", e.Str)
		}
		y := in.num(fr, args[0].Value)
		switch callee.Ident {
		case "min":
			return &Value{T: ite(sym.ULT(x, y), x, y)}
		case "max":
			return &Value{T: ite(sym.UGT(x, y), x, y)}
		case "low_bits":
			// the n lowest bits of x
			return &Value{T: sym.BAnd(x, sym.Sub(sym.Shl(sym.BV(1, 64), y), sym.BV(1, 64)))}
		case "high_bits":
			// the n highest bits of x (of its w-bit type), as a number
			return &Value{T: ite(sym.Eq(y, sym.BV(0, 64)), sym.BV(0, 64), sym.LShr(x, sym.Sub(sym.BV(uint64(w), 64), y)))}
		}
	}
	unsup("call %s", e.Str)
	return nil
}
