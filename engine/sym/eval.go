package sym

// Eval computes the value of t under a model (variable name -> value; absent
// variables are 0). ok is false if t contains something that cannot be
// evaluated (array variables).
func Eval(t *Term, model map[string]uint64, memo map[*Term]uint64) (uint64, bool) {
	if t.Op == OpConst {
		return t.Val, true
	}
	if v, ok := memo[t]; ok {
		return v, true
	}
	var r uint64
	switch t.Op {
	case OpVar:
		if t.Arr {
			return 0, false
		}
		r = model[t.Name] & maskB(t.W)
	case OpNot:
		a, ok := Eval(t.Args[0], model, memo)
		if !ok {
			return 0, false
		}
		r = a ^ 1
	case OpAnd:
		a, ok := Eval(t.Args[0], model, memo)
		if !ok {
			return 0, false
		}
		if a == 0 {
			r = 0
		} else {
			b, ok := Eval(t.Args[1], model, memo)
			if !ok {
				return 0, false
			}
			r = b
		}
	case OpOr:
		a, ok := Eval(t.Args[0], model, memo)
		if !ok {
			return 0, false
		}
		if a == 1 {
			r = 1
		} else {
			b, ok := Eval(t.Args[1], model, memo)
			if !ok {
				return 0, false
			}
			r = b
		}
	case OpIte:
		c, ok := Eval(t.Args[0], model, memo)
		if !ok {
			return 0, false
		}
		if t.Arr {
			return 0, false
		}
		if c == 1 {
			r, ok = Eval(t.Args[1], model, memo)
		} else {
			r, ok = Eval(t.Args[2], model, memo)
		}
		if !ok {
			return 0, false
		}
	case OpEq:
		if t.Args[0].Arr {
			return 0, false
		}
		a, ok := Eval(t.Args[0], model, memo)
		if !ok {
			return 0, false
		}
		b, ok := Eval(t.Args[1], model, memo)
		if !ok {
			return 0, false
		}
		if a == b {
			r = 1
		}
	case OpBVNot:
		a, ok := Eval(t.Args[0], model, memo)
		if !ok {
			return 0, false
		}
		r = ^a & mask(t.W)
	case OpBVNeg:
		a, ok := Eval(t.Args[0], model, memo)
		if !ok {
			return 0, false
		}
		r = (-a) & mask(t.W)
	case OpBVULT, OpBVULE, OpBVSLT, OpBVSLE:
		a, ok := Eval(t.Args[0], model, memo)
		if !ok {
			return 0, false
		}
		b, ok := Eval(t.Args[1], model, memo)
		if !ok {
			return 0, false
		}
		if cmpFold(t.Op, a, b, t.Args[0].W) {
			r = 1
		}
	case OpConcat:
		a, ok := Eval(t.Args[0], model, memo)
		if !ok {
			return 0, false
		}
		b, ok := Eval(t.Args[1], model, memo)
		if !ok {
			return 0, false
		}
		r = a<<uint(t.Args[1].W) | b
	case OpExtract:
		a, ok := Eval(t.Args[0], model, memo)
		if !ok {
			return 0, false
		}
		r = (a >> uint(t.Lo)) & mask(t.W)
	case OpZExt:
		a, ok := Eval(t.Args[0], model, memo)
		if !ok {
			return 0, false
		}
		r = a
	case OpSExt:
		a, ok := Eval(t.Args[0], model, memo)
		if !ok {
			return 0, false
		}
		r = uint64(sext64(a, t.Args[0].W)) & mask(t.W)
	case OpSelect, OpStore, OpConstArr:
		return 0, false
	default:
		a, ok := Eval(t.Args[0], model, memo)
		if !ok {
			return 0, false
		}
		b, ok := Eval(t.Args[1], model, memo)
		if !ok {
			return 0, false
		}
		v, ok2 := foldBin(t.Op, a, b, t.W)
		if !ok2 {
			return 0, false
		}
		r = v
	}
	memo[t] = r
	return r, true
}

func maskB(w int) uint64 {
	if w == 0 {
		return 1
	}
	return mask(w)
}
