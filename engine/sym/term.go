// Package sym is the solver core shared by the front ends: an immutable term
// DAG over Bool and fixed-width bit-vectors (≤64 bits) with a constant-folding
// simplifier, and a driver for long-lived SMT-LIB2 solver processes.
package sym

import (
	"fmt"
	"math/bits"
	"sync/atomic"
)

type Op uint8

const (
	OpConst Op = iota
	OpVar
	OpNot
	OpAnd
	OpOr
	OpEq
	OpIte
	OpBVAdd
	OpBVSub
	OpBVMul
	OpBVUDiv
	OpBVURem
	OpBVSDiv
	OpBVSRem
	OpBVAnd
	OpBVOr
	OpBVXor
	OpBVNot
	OpBVNeg
	OpBVShl
	OpBVLShr
	OpBVAShr
	OpBVULT
	OpBVULE
	OpBVSLT
	OpBVSLE
	OpConcat
	OpExtract
	OpZExt
	OpSExt
	OpSelect // (select arr idx)
	OpStore  // (store arr idx val)
	OpConstArr
)

// Term is an immutable node. W==0 means Bool; W>0 is a bit-vector of that
// width. Arrays (index BV32 -> BV8) have Arr==true.
type Term struct {
	ID   uint64
	Op   Op
	W    int
	Arr  bool
	Args []*Term
	Val  uint64 // OpConst: value (Bool: 0/1)
	Name string // OpVar
	Hi   int    // OpExtract hi / ZExt,SExt: added bits
	Lo   int
	D    int32 // depth of the term DAG below this node

	ubm    uint64 // UBoundMemo cache (terms are immutable; set once by the goroutine that built the term)
	ubmSet bool
}

var idCtr uint64

func newTerm(op Op, w int, args ...*Term) *Term {
	d := int32(0)
	for _, a := range args {
		if a != nil && a.D >= d {
			d = a.D + 1
		}
	}
	return &Term{ID: atomic.AddUint64(&idCtr, 1), Op: op, W: w, Args: args, D: d}
}

func mask(w int) uint64 {
	if w >= 64 {
		return ^uint64(0)
	}
	return (uint64(1) << uint(w)) - 1
}

var (
	True  = &Term{ID: 1, Op: OpConst, W: 0, Val: 1}
	False = &Term{ID: 2, Op: OpConst, W: 0, Val: 0}
)

func init() { idCtr = 16 }

func Bool(b bool) *Term {
	if b {
		return True
	}
	return False
}

func BV(v uint64, w int) *Term {
	if w <= 0 || w > 64 {
		panic(fmt.Sprintf("sym.BV: bad width %d", w))
	}
	return &Term{ID: atomic.AddUint64(&idCtr, 1), Op: OpConst, W: w, Val: v & mask(w)}
}

func Var(name string, w int) *Term {
	t := newTerm(OpVar, w)
	t.Name = name
	return t
}

func ArrVar(name string) *Term {
	t := newTerm(OpVar, 8)
	t.Arr = true
	t.Name = name
	return t
}

func (t *Term) IsConst() bool { return t.Op == OpConst }
func (t *Term) IsBool() bool  { return t.W == 0 && !t.Arr }
func (t *Term) IsTrue() bool  { return t.Op == OpConst && t.W == 0 && t.Val == 1 }
func (t *Term) IsFalse() bool { return t.Op == OpConst && t.W == 0 && t.Val == 0 }

// Signed returns the constant's value sign-extended to int64.
func (t *Term) Signed() int64 {
	return sext64(t.Val, t.W)
}

func sext64(v uint64, w int) int64 {
	if w >= 64 {
		return int64(v)
	}
	if v&(1<<uint(w-1)) != 0 {
		return int64(v | ^mask(w))
	}
	return int64(v)
}

func Not(a *Term) *Term {
	if a.IsConst() {
		return Bool(a.Val == 0)
	}
	if a.Op == OpNot {
		return a.Args[0]
	}
	return newTerm(OpNot, 0, a)
}

func And(a, b *Term) *Term {
	if a.IsConst() {
		if a.Val == 0 {
			return False
		}
		return b
	}
	if b.IsConst() {
		if b.Val == 0 {
			return False
		}
		return a
	}
	if a == b {
		return a
	}
	return newTerm(OpAnd, 0, a, b)
}

func Or(a, b *Term) *Term {
	if a.IsConst() {
		if a.Val == 1 {
			return True
		}
		return b
	}
	if b.IsConst() {
		if b.Val == 1 {
			return True
		}
		return a
	}
	if a == b {
		return a
	}
	return newTerm(OpOr, 0, a, b)
}

func Implies(a, b *Term) *Term { return Or(Not(a), b) }

func AndN(ts ...*Term) *Term {
	r := True
	for _, t := range ts {
		r = And(r, t)
	}
	return r
}

func OrN(ts ...*Term) *Term {
	r := False
	for _, t := range ts {
		r = Or(r, t)
	}
	return r
}

// constLeaves reports whether t is a constant or an ite tree (bounded size)
// whose leaves are all constants.
func constLeaves(t *Term, budget *int) bool {
	if t.Op == OpConst {
		return true
	}
	if t.Op != OpIte {
		return false
	}
	*budget--
	if *budget < 0 {
		return false
	}
	return constLeaves(t.Args[1], budget) && constLeaves(t.Args[2], budget)
}

// mapLeaves applies f to each constant leaf of an ite tree.
func mapLeaves(t *Term, f func(*Term) *Term) *Term {
	if t.Op == OpConst {
		return f(t)
	}
	return Ite(t.Args[0], mapLeaves(t.Args[1], f), mapLeaves(t.Args[2], f))
}

func pushable(a, b *Term) (tree, k *Term, left bool, ok bool) {
	if a.Op == OpIte && b.Op == OpConst {
		n := 24
		if constLeaves(a, &n) {
			return a, b, true, true
		}
	}
	if b.Op == OpIte && a.Op == OpConst {
		n := 24
		if constLeaves(b, &n) {
			return b, a, false, true
		}
	}
	return nil, nil, false, false
}

func Eq(a, b *Term) *Term {
	if a == b {
		return True
	}
	if a.W != b.W || a.Arr != b.Arr {
		panic(fmt.Sprintf("sym.Eq: width mismatch %d vs %d", a.W, b.W))
	}
	if a.IsConst() && b.IsConst() {
		return Bool(a.Val == b.Val)
	}
	if a.W == 0 && !a.Arr {
		if a.IsConst() {
			if a.Val == 1 {
				return b
			}
			return Not(b)
		}
		if b.IsConst() {
			if b.Val == 1 {
				return a
			}
			return Not(a)
		}
	}
	if tree, k, _, ok := pushable(a, b); ok {
		return mapLeaves(tree, func(l *Term) *Term { return Bool(l.Val == k.Val) })
	}
	// zext(x) == const  ->  x == const' or false
	if b.IsConst() && a.Op == OpZExt {
		x := a.Args[0]
		if b.Val&^mask(x.W) != 0 {
			return False
		}
		return Eq(x, BV(b.Val, x.W))
	}
	if a.IsConst() && b.Op == OpZExt {
		return Eq(b, a)
	}
	return newTerm(OpEq, 0, a, b)
}

func Ne(a, b *Term) *Term { return Not(Eq(a, b)) }

func Ite(c, a, b *Term) *Term {
	if c.IsConst() {
		if c.Val == 1 {
			return a
		}
		return b
	}
	if a == b {
		return a
	}
	if a.W != b.W || a.Arr != b.Arr {
		panic(fmt.Sprintf("sym.Ite: width mismatch %d vs %d", a.W, b.W))
	}
	if a.IsConst() && b.IsConst() && a.Val == b.Val {
		return a
	}
	if a.W == 0 && !a.Arr {
		if a.IsConst() && b.IsConst() {
			if a.Val == 1 {
				return c
			}
			return Not(c)
		}
		if a.IsConst() {
			if a.Val == 1 {
				return Or(c, b)
			}
			return And(Not(c), b)
		}
		if b.IsConst() {
			if b.Val == 1 {
				return Or(Not(c), a)
			}
			return And(c, a)
		}
	}
	if c.Op == OpNot {
		return Ite(c.Args[0], b, a)
	}
	t := newTerm(OpIte, a.W, c, a, b)
	t.Arr = a.Arr
	return t
}

func foldBin(op Op, x, y uint64, w int) (uint64, bool) {
	m := mask(w)
	switch op {
	case OpBVAdd:
		return (x + y) & m, true
	case OpBVSub:
		return (x - y) & m, true
	case OpBVMul:
		return (x * y) & m, true
	case OpBVUDiv:
		if y == 0 {
			return m, true
		}
		return x / y, true
	case OpBVURem:
		if y == 0 {
			return x, true
		}
		return x % y, true
	case OpBVSDiv:
		sx, sy := sext64(x, w), sext64(y, w)
		if sy == 0 {
			if sx < 0 {
				return 1, true
			}
			return m, true
		}
		if sy == -1 {
			return uint64(-sx) & m, true
		}
		return uint64(sx/sy) & m, true
	case OpBVSRem:
		sx, sy := sext64(x, w), sext64(y, w)
		if sy == 0 {
			return x, true
		}
		if sy == -1 {
			return 0, true
		}
		return uint64(sx%sy) & m, true
	case OpBVAnd:
		return x & y, true
	case OpBVOr:
		return x | y, true
	case OpBVXor:
		return x ^ y, true
	case OpBVShl:
		if y >= uint64(w) {
			return 0, true
		}
		return (x << y) & m, true
	case OpBVLShr:
		if y >= uint64(w) {
			return 0, true
		}
		return x >> y, true
	case OpBVAShr:
		sx := sext64(x, w)
		if y >= uint64(w) {
			if sx < 0 {
				return m, true
			}
			return 0, true
		}
		return uint64(sx>>y) & m, true
	}
	return 0, false
}

func bin(op Op, a, b *Term) *Term {
	if a.W != b.W || a.W == 0 {
		panic(fmt.Sprintf("sym.bin op %d: widths %d %d", op, a.W, b.W))
	}
	w := a.W
	if a.IsConst() && b.IsConst() {
		v, _ := foldBin(op, a.Val, b.Val, w)
		return BV(v, w)
	}
	// identities
	switch op {
	case OpBVAdd:
		if a.IsConst() && a.Val == 0 {
			return b
		}
		if b.IsConst() && b.Val == 0 {
			return a
		}
		// (x + c1) + c2
		if b.IsConst() && a.Op == OpBVAdd && a.Args[1].IsConst() {
			return bin(OpBVAdd, a.Args[0], BV(a.Args[1].Val+b.Val, w))
		}
	case OpBVSub:
		if b.IsConst() && b.Val == 0 {
			return a
		}
		if a == b {
			return BV(0, w)
		}
		if b.IsConst() {
			return bin(OpBVAdd, a, BV(-b.Val, w))
		}
	case OpBVMul:
		if a.IsConst() {
			a, b = b, a
		}
		if b.IsConst() {
			if b.Val == 0 {
				return BV(0, w)
			}
			if b.Val == 1 {
				return a
			}
		}
	case OpBVAnd:
		if a.IsConst() {
			a, b = b, a
		}
		if b.IsConst() {
			if b.Val == 0 {
				return BV(0, w)
			}
			if b.Val == mask(w) {
				return a
			}
			// zext(x) & m where m covers x's bits
			if a.Op == OpZExt && b.Val&mask(a.Args[0].W) == mask(a.Args[0].W) {
				return a
			}
			// low-bit masks m = 2^k - 1
			if m := b.Val; m&(m+1) == 0 {
				k := uint64(0)
				for (m>>k)&1 == 1 {
					k++
				}
				// x & m == x when x <= m
				if ub, ok := UBound(a, 24); ok && ub <= m {
					return a
				}
				// (x << c) & m == 0 when c >= k
				if a.Op == OpBVShl && a.Args[1].IsConst() && a.Args[1].Val >= k {
					return BV(0, w)
				}
				// (x | y) & m distributes
				if a.Op == OpBVOr {
					return bin(OpBVOr, bin(OpBVAnd, a.Args[0], b), bin(OpBVAnd, a.Args[1], b))
				}
			}
		}
		if a == b {
			return a
		}
	case OpBVOr:
		if a.IsConst() {
			a, b = b, a
		}
		if b.IsConst() {
			if b.Val == 0 {
				return a
			}
			if b.Val == mask(w) {
				return b
			}
		}
		if a == b {
			return a
		}
	case OpBVXor:
		if a.IsConst() {
			a, b = b, a
		}
		if b.IsConst() && b.Val == 0 {
			return a
		}
		if a == b {
			return BV(0, w)
		}
	case OpBVShl, OpBVLShr, OpBVAShr:
		if b.IsConst() && b.Val == 0 {
			return a
		}
		if a.IsConst() && a.Val == 0 {
			return a
		}
		if b.IsConst() && b.Val >= uint64(w) && op != OpBVAShr {
			return BV(0, w)
		}
		// lshr(zext(x), c) with c >= width(x)
		if op == OpBVLShr && b.IsConst() && a.Op == OpZExt && b.Val >= uint64(a.Args[0].W) {
			return BV(0, w)
		}
		if op == OpBVLShr && b.IsConst() && b.Val < uint64(w) {
			c := b.Val
			// lshr(x, c) == 0 when x < 2^c
			if ub, ok := UBound(a, 24); ok && ub < uint64(1)<<c {
				return BV(0, w)
			}
			// lshr(shl(x, c), c) == x when x < 2^(w-c)
			if a.Op == OpBVShl && a.Args[1].IsConst() && a.Args[1].Val == c {
				if ub, ok := UBound(a.Args[0], 24); ok && ub <= mask(w)>>c {
					return a.Args[0]
				}
			}
			// lshr(x | y, c) distributes
			if a.Op == OpBVOr {
				return bin(OpBVOr, bin(OpBVLShr, a.Args[0], b), bin(OpBVLShr, a.Args[1], b))
			}
		}
	case OpBVUDiv:
		if b.IsConst() && b.Val == 1 {
			return a
		}
	case OpBVURem:
		if b.IsConst() && b.Val == 1 {
			return BV(0, w)
		}
	}
	if tree, k, left, ok := pushable(a, b); ok {
		return mapLeaves(tree, func(l *Term) *Term {
			var v uint64
			if left {
				v, _ = foldBin(op, l.Val, k.Val, w)
			} else {
				v, _ = foldBin(op, k.Val, l.Val, w)
			}
			return BV(v, w)
		})
	}
	return newTerm(op, w, a, b)
}

func Add(a, b *Term) *Term  { return bin(OpBVAdd, a, b) }
func Sub(a, b *Term) *Term  { return bin(OpBVSub, a, b) }
func Mul(a, b *Term) *Term  { return bin(OpBVMul, a, b) }
func UDiv(a, b *Term) *Term { return bin(OpBVUDiv, a, b) }
func URem(a, b *Term) *Term {
	if b.IsConst() && b.Val != 0 && !a.IsConst() {
		if ub, ok := UBound(a, 48); ok && ub < b.Val {
			return a // a < b: the remainder is a itself
		}
	}
	return bin(OpBVURem, a, b)
}

// UBound returns a sound upper bound of the unsigned value of t obtained by a shallow
// structural analysis (zero extensions, masks, constants, non-wrapping sums, shifts
// right, remainders, ite), looking at most depth levels down.
func UBound(t *Term, depth int) (uint64, bool) {
	if t.W == 0 || t.Arr || t.W > 64 {
		return 0, false
	}
	full := mask(t.W)
	if depth <= 0 {
		return full, true
	}
	switch t.Op {
	case OpConst:
		return t.Val, true
	case OpZExt:
		if u, ok := UBound(t.Args[0], depth-1); ok {
			return u, true
		}
	case OpBVAnd:
		u0, ok0 := UBound(t.Args[0], depth-1)
		u1, ok1 := UBound(t.Args[1], depth-1)
		if ok0 && ok1 {
			if u1 < u0 {
				return u1, true
			}
			return u0, true
		}
	case OpBVAdd:
		u0, ok0 := UBound(t.Args[0], depth-1)
		u1, ok1 := UBound(t.Args[1], depth-1)
		if ok0 && ok1 && u0+u1 >= u0 && u0+u1 <= full {
			return u0 + u1, true
		}
	case OpBVOr, OpBVXor:
		u0, ok0 := UBound(t.Args[0], depth-1)
		u1, ok1 := UBound(t.Args[1], depth-1)
		if ok0 && ok1 {
			m := u0 | u1
			// smallest 2^k - 1 covering both
			for m&(m+1) != 0 {
				m |= m >> 1
			}
			if m <= full {
				return m, true
			}
		}
	case OpBVShl:
		if c := t.Args[1]; c.IsConst() && c.Val < uint64(t.W) {
			if u, ok := UBound(t.Args[0], depth-1); ok && u <= full>>c.Val {
				return u << c.Val, true
			}
		}
	case OpBVURem:
		if b := t.Args[1]; b.IsConst() && b.Val != 0 {
			return b.Val - 1, true
		}
	case OpBVLShr, OpBVUDiv:
		if u, ok := UBound(t.Args[0], depth-1); ok {
			return u, true
		}
	case OpIte:
		u0, ok0 := UBound(t.Args[1], depth-1)
		u1, ok1 := UBound(t.Args[2], depth-1)
		if ok0 && ok1 {
			if u1 > u0 {
				return u1, true
			}
			return u0, true
		}
	case OpExtract:
		if t.Lo == 0 {
			if u, ok := UBound(t.Args[0], depth-1); ok && u <= full {
				return u, true
			}
		}
	}
	return full, true
}
// UBoundMemo is UBound without a depth limit, memoised per term: an upper bound of the unsigned
// value of t that follows from the term structure alone (constants, zero extensions, sums that
// cannot wrap, remainders by constants, ...). Linear in the size of the DAG on first use.
func UBoundMemo(t *Term) uint64 {
	if t.W == 0 || t.Arr || t.W > 64 {
		return ^uint64(0)
	}
	full := mask(t.W)
	switch t.Op {
	case OpConst:
		return t.Val
	case OpVar:
		return full
	}
	if t.ubmSet {
		return t.ubm
	}
	r := full
	arg := func(i int) uint64 { return UBoundMemo(t.Args[i]) }
	switch t.Op {
	case OpZExt:
		r = arg(0)
	case OpBVAnd:
		r = arg(0)
		if u := arg(1); u < r {
			r = u
		}
	case OpBVAdd:
		u0, u1 := arg(0), arg(1)
		if u0+u1 >= u0 && u0+u1 <= full {
			r = u0 + u1
		}
	case OpBVOr, OpBVXor:
		m := arg(0) | arg(1)
		for m&(m+1) != 0 {
			m |= m >> 1
		}
		if m <= full {
			r = m
		}
	case OpBVShl:
		if c := t.Args[1]; c.IsConst() && c.Val < uint64(t.W) {
			if u := arg(0); u <= full>>c.Val {
				r = u << c.Val
			}
		}
	case OpBVURem:
		if b := t.Args[1]; b.IsConst() && b.Val != 0 {
			r = b.Val - 1
		} else {
			r = arg(0)
		}
	case OpBVLShr, OpBVUDiv:
		r = arg(0)
	case OpIte:
		r = arg(1)
		if u := arg(2); u > r {
			r = u
		}
	case OpExtract:
		if t.Lo == 0 {
			if u := arg(0); u <= full {
				r = u
			}
		}
	case OpSelect:
		r = 0xFF
	}
	if r > full {
		r = full
	}
	t.ubm, t.ubmSet = r, true
	return r
}

func SDiv(a, b *Term) *Term { return bin(OpBVSDiv, a, b) }
func SRem(a, b *Term) *Term { return bin(OpBVSRem, a, b) }
func BAnd(a, b *Term) *Term { return bin(OpBVAnd, a, b) }
func BOr(a, b *Term) *Term  { return bin(OpBVOr, a, b) }
func BXor(a, b *Term) *Term { return bin(OpBVXor, a, b) }
func Shl(a, b *Term) *Term  { return bin(OpBVShl, a, b) }
func LShr(a, b *Term) *Term { return bin(OpBVLShr, a, b) }
func AShr(a, b *Term) *Term { return bin(OpBVAShr, a, b) }

func BNot(a *Term) *Term {
	if a.IsConst() {
		return BV(^a.Val, a.W)
	}
	if a.Op == OpBVNot {
		return a.Args[0]
	}
	return newTerm(OpBVNot, a.W, a)
}

func Neg(a *Term) *Term {
	if a.IsConst() {
		return BV(-a.Val, a.W)
	}
	return newTerm(OpBVNeg, a.W, a)
}

func cmpFold(op Op, x, y uint64, w int) bool {
	switch op {
	case OpBVULT:
		return x < y
	case OpBVULE:
		return x <= y
	case OpBVSLT:
		return sext64(x, w) < sext64(y, w)
	case OpBVSLE:
		return sext64(x, w) <= sext64(y, w)
	}
	panic("cmpFold")
}

func cmp(op Op, a, b *Term) *Term {
	if a.W != b.W || a.W == 0 {
		panic(fmt.Sprintf("sym.cmp: widths %d %d", a.W, b.W))
	}
	w := a.W
	if a.IsConst() && b.IsConst() {
		return Bool(cmpFold(op, a.Val, b.Val, w))
	}
	if a == b {
		return Bool(op == OpBVULE || op == OpBVSLE)
	}
	switch op {
	case OpBVULT:
		if b.IsConst() && b.Val == 0 {
			return False
		}
		if a.IsConst() && a.Val == mask(w) {
			return False
		}
	case OpBVULE:
		if a.IsConst() && a.Val == 0 {
			return True
		}
		if b.IsConst() && b.Val == mask(w) {
			return True
		}
	}
	// zext(x) cmp const where const >= 2^wx (unsigned, or signed with both non-negative)
	if a.Op == OpZExt && b.IsConst() {
		x := a.Args[0]
		nonneg := sext64(b.Val, w) >= 0
		if (op == OpBVULT || op == OpBVULE) || (nonneg && x.W < w) {
			if b.Val > mask(x.W) {
				return True
			}
		}
	}
	if tree, k, left, ok := pushable(a, b); ok {
		return mapLeaves(tree, func(l *Term) *Term {
			if left {
				return Bool(cmpFold(op, l.Val, k.Val, w))
			}
			return Bool(cmpFold(op, k.Val, l.Val, w))
		})
	}
	return newTerm(op, 0, a, b)
}

func ULT(a, b *Term) *Term { return cmp(OpBVULT, a, b) }
func ULE(a, b *Term) *Term { return cmp(OpBVULE, a, b) }
func SLT(a, b *Term) *Term { return cmp(OpBVSLT, a, b) }
func SLE(a, b *Term) *Term { return cmp(OpBVSLE, a, b) }
func UGT(a, b *Term) *Term { return ULT(b, a) }
func UGE(a, b *Term) *Term { return ULE(b, a) }
func SGT(a, b *Term) *Term { return SLT(b, a) }
func SGE(a, b *Term) *Term { return SLE(b, a) }

func Extract(a *Term, hi, lo int) *Term {
	if hi < lo || hi >= a.W || lo < 0 {
		panic(fmt.Sprintf("sym.Extract %d:%d of width %d", hi, lo, a.W))
	}
	w := hi - lo + 1
	if w == a.W {
		return a
	}
	if a.IsConst() {
		return BV(a.Val>>uint(lo), w)
	}
	switch a.Op {
	case OpZExt:
		x := a.Args[0]
		if hi < x.W {
			return Extract(x, hi, lo)
		}
		if lo >= x.W {
			return BV(0, w)
		}
		if lo == 0 {
			return ZExt(x, w)
		}
	case OpSExt:
		x := a.Args[0]
		if hi < x.W {
			return Extract(x, hi, lo)
		}
		if lo == 0 {
			return SExt(x, w)
		}
	case OpExtract:
		return Extract(a.Args[0], hi+a.Lo, lo+a.Lo)
	case OpBVLShr:
		if c := a.Args[1]; c.IsConst() && hi+int(c.Val) < a.W {
			return Extract(a.Args[0], hi+int(c.Val), lo+int(c.Val))
		}
	case OpBVShl:
		if c := a.Args[1]; c.IsConst() && lo >= int(c.Val) {
			return Extract(a.Args[0], hi-int(c.Val), lo-int(c.Val))
		}
	case OpBVOr, OpBVAnd, OpBVXor:
		// bitwise ops distribute over extraction; worthwhile when a side vanishes
		l, r := Extract(a.Args[0], hi, lo), Extract(a.Args[1], hi, lo)
		if l.IsConst() || r.IsConst() {
			return bin(a.Op, l, r)
		}
	case OpConcat:
		lw := a.Args[1].W
		if hi < lw {
			return Extract(a.Args[1], hi, lo)
		}
		if lo >= lw {
			return Extract(a.Args[0], hi-lw, lo-lw)
		}
	case OpIte:
		n := 24
		if constLeaves(a, &n) {
			return mapLeaves(a, func(l *Term) *Term { return BV(l.Val>>uint(lo), w) })
		}
	}
	t := newTerm(OpExtract, w, a)
	t.Hi, t.Lo = hi, lo
	return t
}

// ZExt zero-extends (or returns a unchanged) to width w.
func ZExt(a *Term, w int) *Term {
	if w == a.W {
		return a
	}
	if w < a.W {
		panic("sym.ZExt: narrowing")
	}
	if a.IsConst() {
		return BV(a.Val, w)
	}
	if a.Op == OpZExt {
		return ZExt(a.Args[0], w)
	}
	if a.Op == OpIte {
		n := 24
		if constLeaves(a, &n) {
			return mapLeaves(a, func(l *Term) *Term { return BV(l.Val, w) })
		}
	}
	t := newTerm(OpZExt, w, a)
	t.Hi = w - a.W
	return t
}

func SExt(a *Term, w int) *Term {
	if w == a.W {
		return a
	}
	if w < a.W {
		panic("sym.SExt: narrowing")
	}
	if a.IsConst() {
		return BV(uint64(sext64(a.Val, a.W)), w)
	}
	if a.Op == OpIte {
		n := 24
		if constLeaves(a, &n) {
			aw := a.W
			return mapLeaves(a, func(l *Term) *Term { return BV(uint64(sext64(l.Val, aw)), w) })
		}
	}
	t := newTerm(OpSExt, w, a)
	t.Hi = w - a.W
	return t
}

// Resize converts to width w with truncation, or sign/zero extension.
func Resize(a *Term, w int, signed bool) *Term {
	if w == a.W {
		return a
	}
	if w < a.W {
		return Extract(a, w-1, 0)
	}
	if signed {
		return SExt(a, w)
	}
	return ZExt(a, w)
}

func Concat(hi, lo *Term) *Term {
	w := hi.W + lo.W
	if w > 64 {
		panic("sym.Concat: width > 64")
	}
	if hi.IsConst() && lo.IsConst() {
		return BV(hi.Val<<uint(lo.W)|lo.Val, w)
	}
	if hi.IsConst() && hi.Val == 0 {
		return ZExt(lo, w)
	}
	return newTerm(OpConcat, w, hi, lo)
}

// Arrays (BV32 index, BV8 element).

func ConstArr(v *Term) *Term {
	t := newTerm(OpConstArr, 8, v)
	t.Arr = true
	return t
}

func Select(arr, idx *Term) *Term {
	if !arr.Arr || idx.W != 32 {
		panic("sym.Select: sorts")
	}
	// select over store with decided indices
	for arr.Op == OpStore {
		si := arr.Args[1]
		if si == idx {
			return arr.Args[2]
		}
		if si.IsConst() && idx.IsConst() {
			if si.Val == idx.Val {
				return arr.Args[2]
			}
			arr = arr.Args[0]
			continue
		}
		break
	}
	if arr.Op == OpConstArr {
		return arr.Args[0]
	}
	return newTerm(OpSelect, 8, arr, idx)
}

func Store(arr, idx, v *Term) *Term {
	if !arr.Arr || idx.W != 32 || v.W != 8 {
		panic("sym.Store: sorts")
	}
	t := newTerm(OpStore, 8, arr, idx, v)
	t.Arr = true
	return t
}

// Popcount etc. helpers for intrinsics over constants.
func LeadingZeros64(x uint64) int { return bits.LeadingZeros64(x) }

func (t *Term) String() string {
	if t.Op == OpConst {
		if t.W == 0 {
			if t.Val == 1 {
				return "true"
			}
			return "false"
		}
		return fmt.Sprintf("%d:bv%d", t.Val, t.W)
	}
	if t.Op == OpVar {
		return t.Name
	}
	return fmt.Sprintf("t%d", t.ID)
}

// Same is a bounded structural equality test (sound: true implies equal).
func Same(a, b *Term, depth int) bool {
	if a == b {
		return true
	}
	if a.Op != b.Op || a.W != b.W || a.Arr != b.Arr || len(a.Args) != len(b.Args) {
		return false
	}
	switch a.Op {
	case OpConst:
		return a.Val == b.Val
	case OpVar:
		return a.Name == b.Name
	}
	if a.Hi != b.Hi || a.Lo != b.Lo || depth <= 0 {
		return false
	}
	for i := range a.Args {
		if !Same(a.Args[i], b.Args[i], depth-1) {
			return false
		}
	}
	return true
}
