package sym

import (
	"bufio"
	"os"
	"fmt"
	"io"
	"os/exec"
	"strconv"
	"strings"
	"sync/atomic"
	"time"
)

type Result int

const (
	Unsat Result = iota
	Sat
	Unknown
)

func (r Result) String() string {
	switch r {
	case Unsat:
		return "unsat"
	case Sat:
		return "sat"
	}
	return "unknown"
}

// Stats are global, updated atomically by all solvers.
type Stats struct {
	Sat, Unsat, Unknown, Errors int64
	NanosInSolver               int64
}

var Global Stats

// Solver wraps one long-lived solver process speaking SMT-LIB2 on stdin/stdout.
type Solver struct {
	Kind    string // "z3", "z3-new", "cvc5"
	cmd     *exec.Cmd
	in      io.WriteCloser
	out     *bufio.Reader
	defined map[uint64]bool
	vars    map[string]*Term
	buf     strings.Builder
	Log     *strings.Builder // if non-nil, everything sent since the last Reset is recorded here
	dead    bool
	LastErr string
	curTO   int
	scopes  [][]uint64 // ids defined inside each open Push scope
	scopeV  [][]string
	dumpF   *os.File
	Epoch   int // incremented whenever the solver context is lost (reset/restart)
}

func solverArgv(kind string) []string {
	switch kind {
	case "z3":
		return []string{"z3", "-in", "-smt2"}
	case "z3-new":
		return []string{"z3-new", "-in", "-smt2"}
	case "cvc5":
		return []string{"cvc5", "--incremental", "--lang=smt2", "--produce-models"}
	}
	panic("unknown solver " + kind)
}

// Primary is the solver used for exploration and for deciding assertions;
// the other two re-discharge assertions in the thorough tier.
func Primary() string {
	if k := os.Getenv("VERIF_SOLVER"); k != "" {
		return k
	}
	return "z3-new"
}

func Others() []string {
	var out []string
	for _, k := range []string{"z3-new", "z3", "cvc5"} {
		if k != Primary() {
			out = append(out, k)
		}
	}
	return out
}

func NewSolver(kind string) (*Solver, error) {
	s := &Solver{Kind: kind}
	if err := s.start(); err != nil {
		return nil, err
	}
	return s, nil
}

func (s *Solver) start() error {
	argv := solverArgv(s.Kind)
	s.cmd = exec.Command(argv[0], argv[1:]...)
	in, err := s.cmd.StdinPipe()
	if err != nil {
		return err
	}
	out, err := s.cmd.StdoutPipe()
	if err != nil {
		return err
	}
	s.cmd.Stderr = nil
	if err := s.cmd.Start(); err != nil {
		return err
	}
	s.in = in
	s.out = bufio.NewReaderSize(out, 1<<16)
	s.defined = map[uint64]bool{}
	s.vars = map[string]*Term{}
	s.dead = false
	s.Epoch++
	s.scopes, s.scopeV = nil, nil
	s.curTO = -1
	s.prelude()
	return nil
}

func (s *Solver) prelude() {
	if s.Kind == "cvc5" {
		s.send("(set-logic ALL)\n")
	}
	s.send("(set-option :produce-models true)\n")
}

func (s *Solver) Close() {
	if s.cmd != nil && !s.dead {
		s.in.Close()
		done := make(chan struct{})
		go func() { s.cmd.Wait(); close(done) }()
		select {
		case <-done:
		case <-time.After(500 * time.Millisecond):
			s.cmd.Process.Kill()
			<-done
		}
		s.dead = true
	}
}

func (s *Solver) restart() {
	if s.cmd != nil && s.cmd.Process != nil {
		s.cmd.Process.Kill()
		s.cmd.Wait()
	}
	s.start()
}

var dumpCtr int64

func (s *Solver) send(txt string) {
	if d := os.Getenv("VERIF_DUMP_SESSION"); d != "" {
		if s.dumpF == nil {
			n := atomic.AddInt64(&dumpCtr, 1)
			s.dumpF, _ = os.Create(fmt.Sprintf("%s/session-%d.smt2", d, n))
		}
		s.dumpF.WriteString(txt)
	}
	if s.Log != nil {
		s.Log.WriteString(txt)
	}
	if _, err := io.WriteString(s.in, txt); err != nil {
		s.dead = true
	}
}

// Reset clears all assertions and definitions.
func (s *Solver) Reset() {
	if s.dead {
		s.restart()
		return
	}
	if s.Log != nil {
		s.Log.Reset()
	}
	s.send("(reset)\n")
	s.Epoch++
	s.scopes, s.scopeV = nil, nil
	s.defined = map[uint64]bool{}
	s.vars = map[string]*Term{}
	s.curTO = -1
	s.prelude()
}

func sortStr(t *Term) string {
	if t.Arr {
		return "(Array (_ BitVec 32) (_ BitVec 8))"
	}
	if t.W == 0 {
		return "Bool"
	}
	return "(_ BitVec " + strconv.Itoa(t.W) + ")"
}

func constStr(t *Term) string {
	if t.W == 0 {
		if t.Val == 1 {
			return "true"
		}
		return "false"
	}
	if t.W%4 == 0 {
		return fmt.Sprintf("#x%0*x", t.W/4, t.Val)
	}
	return fmt.Sprintf("#b%0*b", t.W, t.Val)
}

func symName(n string) string {
	return "|" + strings.ReplaceAll(strings.ReplaceAll(n, "|", "!"), "\\", "!") + "|"
}

func ref(t *Term) string {
	switch t.Op {
	case OpConst:
		return constStr(t)
	case OpVar:
		return symName(t.Name)
	}
	return "t" + strconv.FormatUint(t.ID, 10)
}

var opNames = map[Op]string{
	OpNot: "not", OpAnd: "and", OpOr: "or", OpEq: "=", OpIte: "ite",
	OpBVAdd: "bvadd", OpBVSub: "bvsub", OpBVMul: "bvmul", OpBVUDiv: "bvudiv", OpBVURem: "bvurem",
	OpBVSDiv: "bvsdiv", OpBVSRem: "bvsrem", OpBVAnd: "bvand", OpBVOr: "bvor", OpBVXor: "bvxor",
	OpBVNot: "bvnot", OpBVNeg: "bvneg", OpBVShl: "bvshl", OpBVLShr: "bvlshr", OpBVAShr: "bvashr",
	OpBVULT: "bvult", OpBVULE: "bvule", OpBVSLT: "bvslt", OpBVSLE: "bvsle", OpConcat: "concat",
	OpSelect: "select", OpStore: "store",
}

// define emits declarations/definitions for every not-yet-defined node under t.
func (s *Solver) define(t *Term) {
	if t.Op == OpConst || s.defined[t.ID] {
		return
	}
	type fr struct {
		t *Term
		i int
	}
	stack := []fr{{t, 0}}
	for len(stack) > 0 {
		f := &stack[len(stack)-1]
		n := f.t
		if f.i < len(n.Args) {
			a := n.Args[f.i]
			f.i++
			if a.Op != OpConst && !s.defined[a.ID] {
				stack = append(stack, fr{a, 0})
			}
			continue
		}
		stack = stack[:len(stack)-1]
		if s.defined[n.ID] {
			continue
		}
		s.defined[n.ID] = true
		if k := len(s.scopes); k > 0 {
			s.scopes[k-1] = append(s.scopes[k-1], n.ID)
		}
		b := &s.buf
		switch n.Op {
		case OpVar:
			if prev, ok := s.vars[n.Name]; ok && prev != n {
				if prev.W != n.W || prev.Arr != n.Arr {
					panic("sym: variable " + n.Name + " redeclared with another sort")
				}
				continue
			}
			s.vars[n.Name] = n
			if k := len(s.scopeV); k > 0 {
				s.scopeV[k-1] = append(s.scopeV[k-1], n.Name)
			}
			fmt.Fprintf(b, "(declare-const %s %s)\n", symName(n.Name), sortStr(n))
			continue
		case OpExtract:
			fmt.Fprintf(b, "(define-fun t%d () %s ((_ extract %d %d) %s))\n", n.ID, sortStr(n), n.Hi, n.Lo, ref(n.Args[0]))
			continue
		case OpZExt:
			fmt.Fprintf(b, "(define-fun t%d () %s ((_ zero_extend %d) %s))\n", n.ID, sortStr(n), n.Hi, ref(n.Args[0]))
			continue
		case OpSExt:
			fmt.Fprintf(b, "(define-fun t%d () %s ((_ sign_extend %d) %s))\n", n.ID, sortStr(n), n.Hi, ref(n.Args[0]))
			continue
		case OpConstArr:
			fmt.Fprintf(b, "(define-fun t%d () %s ((as const %s) %s))\n", n.ID, sortStr(n), sortStr(n), ref(n.Args[0]))
			continue
		}
		fmt.Fprintf(b, "(define-fun t%d () %s (%s", n.ID, sortStr(n), opNames[n.Op])
		for _, a := range n.Args {
			b.WriteByte(' ')
			b.WriteString(ref(a))
		}
		b.WriteString("))\n")
	}
	if s.buf.Len() > 0 {
		s.send(s.buf.String())
		s.buf.Reset()
	}
}

// Push opens a solver scope; definitions made inside it are forgotten by Pop.
func (s *Solver) Push() {
	s.send("(push 1)\n")
	s.scopes = append(s.scopes, nil)
	s.scopeV = append(s.scopeV, nil)
}

func (s *Solver) Pop() {
	k := len(s.scopes) - 1
	if k < 0 {
		return
	}
	for _, id := range s.scopes[k] {
		delete(s.defined, id)
	}
	for _, n := range s.scopeV[k] {
		delete(s.vars, n)
	}
	s.scopes = s.scopes[:k]
	s.scopeV = s.scopeV[:k]
	if !s.dead {
		s.send("(pop 1)\n")
	}
}

func (s *Solver) Assert(t *Term) {
	if t.IsTrue() {
		return
	}
	s.define(t)
	s.send("(assert " + ref(t) + ")\n")
}

func (s *Solver) readLine() (string, error) {
	line, err := s.out.ReadString('\n')
	return strings.TrimSpace(line), err
}

func (s *Solver) setTimeout(ms int) {
	if ms == s.curTO {
		return
	}
	s.curTO = ms
	switch s.Kind {
	case "cvc5":
		s.send(fmt.Sprintf("(set-option :tlimit-per %d)\n", ms))
	default:
		s.send(fmt.Sprintf("(set-option :timeout %d)\n", ms))
	}
}

// Check asks whether the asserted context plus extra (may be nil) is
// satisfiable. When wantModel lists variables and the result is Sat, their
// values are returned.
func (s *Solver) Check(extra *Term, timeoutMs int, wantModel []*Term) (Result, map[string]uint64) {
	if s.dead {
		s.restart()
		return Unknown, nil
	}
	if extra != nil {
		if extra.IsFalse() {
			return Unsat, nil
		}
		s.define(extra)
	}
	for _, v := range wantModel {
		s.define(v)
	}
	s.setTimeout(timeoutMs)
	s.send("(push 1)\n")
	if extra != nil && !extra.IsTrue() {
		s.send("(assert " + ref(extra) + ")\n")
	}
	t0 := time.Now()
	s.send("(check-sat)\n")
	res := Unknown
	type lineRes struct {
		l   string
		err error
	}
	ch := make(chan lineRes, 1)
	go func() {
		for {
			l, err := s.readLine()
			if err != nil || l != "" {
				ch <- lineRes{l, err}
				return
			}
		}
	}()
	var lr lineRes
	hard := time.Duration(timeoutMs)*time.Millisecond*2 + 5*time.Second
	select {
	case lr = <-ch:
	case <-time.After(hard):
		// solver ignored its soft timeout: kill it.
		s.cmd.Process.Kill()
		<-ch
		s.cmd.Wait()
		s.dead = true
		atomic.AddInt64(&Global.Unknown, 1)
		atomic.AddInt64(&Global.NanosInSolver, int64(time.Since(t0)))
		return Unknown, nil
	}
	atomic.AddInt64(&Global.NanosInSolver, int64(time.Since(t0)))
	if lr.err != nil {
		s.dead = true
		s.LastErr = "solver died: " + lr.err.Error()
		atomic.AddInt64(&Global.Errors, 1)
		return Unknown, nil
	}
	switch lr.l {
	case "sat":
		res = Sat
		atomic.AddInt64(&Global.Sat, 1)
	case "unsat":
		res = Unsat
		atomic.AddInt64(&Global.Unsat, 1)
	case "unknown":
		res = Unknown
		atomic.AddInt64(&Global.Unknown, 1)
	default:
		// (error ...) or anything else: inconclusive, and the context is suspect.
		s.LastErr = lr.l
		atomic.AddInt64(&Global.Errors, 1)
		s.cmd.Process.Kill()
		s.cmd.Wait()
		s.dead = true
		return Unknown, nil
	}
	var model map[string]uint64
	if res == Sat && len(wantModel) > 0 {
		model = s.getValues(wantModel)
	}
	s.send("(pop 1)\n")
	return res, model
}

func (s *Solver) getValues(vars []*Term) map[string]uint64 {
	model := map[string]uint64{}
	const chunk = 200
	for i := 0; i < len(vars); i += chunk {
		j := i + chunk
		if j > len(vars) {
			j = len(vars)
		}
		var b strings.Builder
		b.WriteString("(get-value (")
		for _, v := range vars[i:j] {
			b.WriteString(ref(v))
			b.WriteByte(' ')
		}
		b.WriteString("))\n")
		s.send(b.String())
		// read balanced s-expression
		depth := 0
		started := false
		var txt strings.Builder
		for !started || depth > 0 {
			line, err := s.out.ReadString('\n')
			if err != nil {
				s.dead = true
				return model
			}
			inBar := false
			for _, c := range line {
				if c == '|' {
					inBar = !inBar
				}
				if inBar {
					continue
				}
				if c == '(' {
					depth++
					started = true
				} else if c == ')' {
					depth--
				}
			}
			txt.WriteString(line)
		}
		parseValues(txt.String(), vars[i:j], model)
	}
	return model
}

// parseValues parses "((name val) (name val) ...)" in order of vars.
func parseValues(txt string, vars []*Term, out map[string]uint64) {
	// Tokenise on values: find #x.., #b.., true, false in order; names may contain anything within bars.
	i := 0
	n := len(txt)
	vi := 0
	for i < n && vi < len(vars) {
		c := txt[i]
		if c == '|' {
			j := strings.IndexByte(txt[i+1:], '|')
			if j < 0 {
				return
			}
			i += j + 2
			continue
		}
		if c == '#' && i+1 < n && (txt[i+1] == 'x' || txt[i+1] == 'b') {
			j := i + 2
			for j < n && (isHex(txt[j])) {
				j++
			}
			base := 16
			if txt[i+1] == 'b' {
				base = 2
			}
			v, _ := strconv.ParseUint(txt[i+2:j], base, 64)
			out[vars[vi].Name] = v
			vi++
			i = j
			continue
		}
		if strings.HasPrefix(txt[i:], "true") && (i == 0 || txt[i-1] == ' ') {
			out[vars[vi].Name] = 1
			vi++
			i += 4
			continue
		}
		if strings.HasPrefix(txt[i:], "false") && (i == 0 || txt[i-1] == ' ') {
			out[vars[vi].Name] = 0
			vi++
			i += 5
			continue
		}
		if strings.HasPrefix(txt[i:], "(_ bv") {
			// (_ bv123 32)
			j := i + 5
			k := j
			for k < n && txt[k] >= '0' && txt[k] <= '9' {
				k++
			}
			v, _ := strconv.ParseUint(txt[j:k], 10, 64)
			out[vars[vi].Name] = v
			vi++
			for k < n && txt[k] != ')' {
				k++
			}
			i = k
			continue
		}
		i++
	}
}

func isHex(c byte) bool {
	return (c >= '0' && c <= '9') || (c >= 'a' && c <= 'f') || (c >= 'A' && c <= 'F')
}

// Script renders a standalone SMT-LIB2 script asking whether all of asserts
// are jointly satisfiable. Used for cross-solver re-discharge.
func Script(asserts []*Term) string {
	s := &Solver{defined: map[uint64]bool{}, vars: map[string]*Term{}}
	var log strings.Builder
	s.Log = &log
	s.in = nopWriter{}
	for _, a := range asserts {
		s.Assert(a)
	}
	return log.String() + "(check-sat)\n"
}

type nopWriter struct{}

func (nopWriter) Write(p []byte) (int, error) { return len(p), nil }
func (nopWriter) Close() error                { return nil }

// RunScript runs a one-shot solver on a script and returns its verdict.
func RunScript(kind string, script string, timeout time.Duration) (Result, string) {
	var argv []string
	switch kind {
	case "z3", "z3-new":
		argv = []string{kind, "-in", "-smt2", fmt.Sprintf("-T:%d", int(timeout.Seconds())+1)}
	case "cvc5":
		argv = []string{"cvc5", "--lang=smt2", fmt.Sprintf("--tlimit=%d", timeout.Milliseconds())}
		script = "(set-logic ALL)\n" + script
	}
	cmd := exec.Command(argv[0], argv[1:]...)
	cmd.Stdin = strings.NewReader(script)
	t0 := time.Now()
	out, _ := cmd.CombinedOutput()
	atomic.AddInt64(&Global.NanosInSolver, int64(time.Since(t0)))
	txt := strings.TrimSpace(string(out))
	first := txt
	if i := strings.IndexByte(txt, '\n'); i >= 0 {
		first = txt[:i]
	}
	rest := ""
	if i := strings.IndexByte(txt, '\n'); i >= 0 {
		rest = txt[i+1:]
	}
	switch first {
	case "sat":
		if strings.Contains(rest, "(error") {
			return Unknown, txt
		}
		return Sat, txt
	case "unsat":
		// the only tolerated error is the get-value that follows an unsat verdict
		if strings.Count(rest, "(error") > strings.Count(rest, "model is not available") {
			return Unknown, txt
		}
		return Unsat, txt
	}
	return Unknown, txt
}

// ScriptWithModel is Script plus a get-value for vars.
func ScriptWithModel(asserts []*Term, vars []*Term) string {
	s := &Solver{defined: map[uint64]bool{}, vars: map[string]*Term{}}
	var log strings.Builder
	s.Log = &log
	s.in = nopWriter{}
	log.WriteString("(set-option :produce-models true)\n")
	for _, v := range vars {
		s.define(v)
	}
	for _, a := range asserts {
		s.Assert(a)
	}
	log.WriteString("(check-sat)\n")
	if len(vars) > 0 {
		log.WriteString("(get-value (")
		for _, v := range vars {
			log.WriteString(ref(v))
			log.WriteByte(' ')
		}
		log.WriteString("))\n")
	}
	return log.String()
}

// RunScriptModel runs a one-shot solver and parses verdict and model.
func RunScriptModel(kind string, script string, timeout time.Duration, vars []*Term) (Result, map[string]uint64) {
	r, out := RunScript(kind, script, timeout)
	switch r {
	case Sat:
		atomic.AddInt64(&Global.Sat, 1)
	case Unsat:
		atomic.AddInt64(&Global.Unsat, 1)
	default:
		atomic.AddInt64(&Global.Unknown, 1)
	}
	if r != Sat || len(vars) == 0 {
		return r, nil
	}
	m := map[string]uint64{}
	if i := strings.IndexByte(out, '\n'); i >= 0 {
		parseValues(out[i+1:], vars, m)
	}
	return r, m
}
