package main

func init() {
	var specs []LLSpec
	for _, f := range []string{"f1", "f2", "f3", "f4", "f5", "f6", "f7", "f8", "f9", "transform"} {
		specs = append(specs, LLSpec{File: "c09.c", Func: "harness_garbage_" + f, Params: map[string]int{"N": 7, "M": 3, "REUSE": 1}, ParamsT: map[string]int{"N": 9, "M": 5}, Reach: []string{"garbage/done"}})
	}
	specs = append(specs, LLSpec{File: "c09.c", Func: "harness_garbage_gif", Reach: []string{"garbage/done"}})
	specs = append(specs, LLSpec{File: "c09.c", Func: "harness_garbage_ycck", Reach: []string{"garbage/done"}})
	specs = append(specs, LLSpec{File: "c09.c", Func: "harness_garbage_adler32", Params: map[string]int{"N": 4}, ParamsT: map[string]int{"N": 8}, Reach: []string{"garbage/done"}})
	register(&PropSpec{ID: "C09", Level: "model_checking",
		Outside: []string{
			"the SSE4.2/AVX2/BMI2-versus-portable clause and the JPEG IDCT exception: SIMD variants are vector IR and x86 intrinsics that llsym does not model (the build uses WUFFS_CONFIG__AVOID_CPU_ARCH)",
			"std/ decoders other than the adler32 hasher (object sizes / path lengths); inputs longer than N bytes; the second input of the re-use clause longer than M bytes",
		},
		Assume: []string{
			"arbitrary prior memory = every byte of the object (and of the destination buffer) is an unconstrained solver variable; reads of never-written bytes yield fresh symbols",
			"the four runs use one call each with a closed source and a destination of 8 bytes",
		},
		Custom: func(rc *runCtx) { rc.runLL(specs) },
	})
}
