package main

import (
	"fmt"
	"os"
	"os/exec"
	"path/filepath"
	"sync"

	"verif/engine/llsym"
	"verif/engine/sym"
	"verif/engine/wuffsym"
)

// tvSpec adapts the reference interpreter to llsym's verif_spec_* hook (one instance per path).
type tvSpec struct {
	file  *wuffsym.File
	in    *wuffsym.Interp
	funcs *sync.Map
}

func (s *tvSpec) Reset(name string) error {
	s.in = &wuffsym.Interp{File: s.file, State: s.file.NewState(name), Unwind: 12, Funcs: map[string]bool{}}
	if len(s.in.State) == 0 {
		return fmt.Errorf("no struct %s", name)
	}
	return nil
}

func (s *tvSpec) slot(field string, idx uint64) (*wuffsym.Value, error) {
	if s.in == nil {
		return nil, fmt.Errorf("verif_spec_reset not called")
	}
	v, ok := s.in.State[field]
	if !ok {
		return nil, fmt.Errorf("no field %s", field)
	}
	if v.Arr && idx >= uint64(len(v.Elts)) {
		return nil, fmt.Errorf("field %s has %d elements", field, len(v.Elts))
	}
	return v, nil
}

func (s *tvSpec) Set(field string, idx uint64, t *sym.Term) error {
	v, err := s.slot(field, idx)
	if err != nil {
		return err
	}
	t = sym.Resize(t, 64, false)
	if v.Arr {
		ne := append([]*sym.Term(nil), v.Elts...)
		ne[idx] = t
		s.in.State[field] = &wuffsym.Value{Arr: true, Elts: ne}
	} else if v.T.IsBool() {
		s.in.State[field] = &wuffsym.Value{T: sym.Not(sym.Eq(t, sym.BV(0, 64)))}
	} else {
		s.in.State[field] = &wuffsym.Value{T: t}
	}
	return nil
}

func (s *tvSpec) Get(field string, idx uint64) (*sym.Term, error) {
	v, err := s.slot(field, idx)
	if err != nil {
		return nil, err
	}
	if v.Arr {
		return v.Elts[idx], nil
	}
	if v.T.IsBool() {
		return sym.Ite(v.T, sym.BV(1, 64), sym.BV(0, 64)), nil
	}
	return v.T, nil
}

func (s *tvSpec) Call(fn string, args []*sym.Term, ob func(*sym.Term, string)) (*sym.Term, error) {
	if s.in == nil {
		return nil, fmt.Errorf("verif_spec_reset not called")
	}
	s.in.Obligation = ob
	var as []*sym.Term
	for _, a := range args {
		as = append(as, sym.Resize(a, 64, false))
	}
	r, err := s.in.Call(fn, as)
	for f := range s.in.Funcs {
		s.funcs.Store(f, true)
	}
	if err != nil {
		return nil, err
	}
	if r != nil && r.IsBool() {
		r = sym.Ite(r, sym.BV(1, 64), sym.BV(0, 64))
	}
	return r, nil
}

// tvLoad dumps the checked AST of the corpus file with the tree's own front end.
func tvLoad() (*wuffsym.File, error) {
	bin, err := buildProbe()
	if err != nil {
		return nil, err
	}
	cmd := exec.Command(bin, "ast", filepath.Join(verifDir, "harness/wuffs/tv/tv.wuffs"))
	cmd.Stderr = os.Stderr
	out, err := cmd.Output()
	if err != nil {
		return nil, fmt.Errorf("the tree's front end rejects harness/wuffs/tv/tv.wuffs: %v", err)
	}
	return wuffsym.Load(out)
}

func init() {
	names := []string{"arith8", "arith16", "arith32", "arith64", "ideal", "compare", "builtins", "arrays", "jumps", "calls", "refined"}
	register(&PropSpec{ID: "C04", Level: "model_checking",
		Outside: []string{
			"programs other than the eleven functions of harness/wuffs/tv/tv.wuffs; coroutines, I/O types, slices, tables, iterate, choose, io_bind/io_limit, signed integers, statuses (the reference interpreter does not model them)",
			"sequences of more than one public call (one call from an arbitrary receiver state inside the field refinements)",
			"arguments outside their refinements, except for the rejection itself (harness_tv_refined: both bounds of two refined parameters)",
		},
		Assume: []string{
			"the meaning of the source is given by engine/wuffsym, an interpreter of the AST produced by the tree's tokenizer, parser and checker (types and constant values are the checker's): ideal integers for non-modular operators, assumed to fit the expression's type (that is C01), ~mod wraps and ~sat clamps at the operand type's width, zero-initialised variables, statement order, guarded path merging, loops unrolled 12 times with an unwinding obligation",
			"the C is generated on every run by the working tree's wuffs-c, compiled by clang -O1 to LLVM IR and executed by llsym; reference values reach the native replay through the model",
		},
		Custom: func(rc *runCtx) {
			file, err := tvLoad()
			if err != nil {
				rc.broken = append(rc.broken, "C04: "+err.Error())
				return
			}
			var used sync.Map
			var specs []LLSpec
			for _, n := range names {
				specs = append(specs, LLSpec{File: "c04.c", Func: "harness_tv_" + n, Reach: []string{"tv/done"},
					Cfg: func(c *llsym.Config, thorough bool) {
						c.Spec = func() llsym.SpecPath { return &tvSpec{file: file, funcs: &used} }
						if c.CheckTimeout < 240000 {
							c.CheckTimeout = 240000 // the divider/multiplier equivalences of `ideal` take ~20-60 s on a busy machine
						}
					}})
			}
			rc.runLL(specs)
			used.Range(func(k, v interface{}) bool {
				rc.funcs["wuffs:calc."+k.(string)] = 1
				return true
			})
		},
	})
}
