package main

import (
	"fmt"

	"verif/engine/gossa"
)

func init() {
	L := "lib/flatecut"
	cfg := func(c *gossa.Config, thorough bool) {
		c.IteCap = 512
		c.ConcCap = 300
		c.Unwind = 400
		c.UniqDepth = 6
		c.Replace = map[string]string{"compress/flate.NewReader": "!vhFlateNewReader"}
	}
	p := &PropSpec{ID: "C16", Level: "model_checking",
		Outside: []string{
			"streams longer than N bytes (hence long distance/length copies and 32 KiB window effects)",
			"dynamic-Huffman blocks with symbolic headers (only concrete headers followed by symbolic bodies)",
			"preset-dictionary contents (zlibcut only skips the DICTID field)",
			"outputs longer than 700 bytes (paths reaching the reference decoder's limit are pruned)",
		},
		Assume: []string{
			"the RFC 1951 reference decoder in harness/go/c16 (vhInflate) is the trusted oracle; it also stands in for compress/flate.NewReader, which the code under test calls (Config.Replace), with compress/flate's error timing (data decoded before an error is delivered first)",
			"'valid DEFLATE data' = the reference decoder accepts the bytes and the final block ends in the last byte",
		},
	}
	add := func(fn, tier string, n, kind, w int, reach string) {
		p.Harnesses = append(p.Harnesses, HSpec{Prop: "C16", Pkg: L, Dir: "c16", Func: fn, Tier: tier, Cfg: cfg,
			Label:  fmt.Sprintf("[n=%d kind=%d w=%d]", n, kind, w),
			Params: map[string]int{"N": n, "KIND": kind, "W": w}, Reach: []string{reach}})
	}
	gen := func(tier string, blocks, tokens, dyn, w, self int, tail ...int) {
		p.Harnesses = append(p.Harnesses, HSpec{Prop: "C16", Pkg: L, Dir: "c16", Func: "VH_C16_CutGen", Tier: tier, Cfg: cfg,
			Label:  fmt.Sprintf("[blocks=%d tokens=%d dyn=%d w=%d tail=%d fill9=%d]", blocks, tokens, dyn, w, append(tail, 0)[0], append(tail, 0, 0)[1]),
			Params: map[string]int{"BLOCKS": blocks, "TOKENS": tokens, "DYN": dyn, "W": w, "SELFCHECK": self, "LENSYMS": 1, "TAIL": append(tail, 0)[0], "FILL9": append(tail, 0, 0)[1]}, Reach: []string{"cutgen/done"}})
	}
	gen("quick", 2, 1, 0, 0, 1)
	gen("quick", 1, 2, 1, 1, 0)
	gen("quick", 2, 1, 0, 0, 0, 6, 7)
	// every length symbol 257..285 with every value of its extra bits (one literal, then one match)
	p.Harnesses = append(p.Harnesses, HSpec{Prop: "C16", Pkg: L, Dir: "c16", Func: "VH_C16_CutGen", Cfg: cfg,
		Label:  "[blocks=1 tokens=2 dyn=0 every length symbol]",
		Params: map[string]int{"BLOCKS": 1, "TOKENS": 2, "DYN": 0, "W": 0, "SELFCHECK": 0, "LENSYMS": 2, "TAIL": 0, "FILL9": 0}, Reach: []string{"cutgen/done"}})
	zl := func(tier string, blocks, tokens, dyn, w int) {
		p.Harnesses = append(p.Harnesses, HSpec{Prop: "C16", Pkg: "lib/zlibcut", Dir: "c16z", Func: "VH_C16_ZlibCut", Tier: tier, Cfg: cfg,
			Label:  fmt.Sprintf("[blocks=%d tokens=%d dyn=%d w=%d]", blocks, tokens, dyn, w),
			Params: map[string]int{"BLOCKS": blocks, "TOKENS": tokens, "DYN": dyn, "W": w, "LENSYMS": 1, "TAIL": 0}, Reach: []string{"zlib/done", "zlib/error"}})
	}
	zl("quick", 1, 2, 0, 1)
	// not registered: generator shapes with 2x2, 3x1 or 1x3 blocks x tokens (the first alone used the whole
	// 90-minute budget; 3x1 did not finish in 10 minutes) - the thorough tier adds the any-bytes harnesses
	add("VH_C16_Cut", "thorough", 3, 0, 0, "cut/done")
	add("VH_C16_Robust", "thorough", 3, 0, 0, "robust/done")
	register(p)
}
