package main

import (
	"context"
	"fmt"
	"os"
	"os/exec"
	"path/filepath"
	"strconv"
	"strings"
	"sync"
	"time"

	"verif/engine/llsym"
)

// LLSpec is one C harness function executed by llsym on freshly generated C.
type LLSpec struct {
	File    string // under harness/c
	Func    string
	Label   string
	Tier    string
	Params  map[string]int
	ParamsT map[string]int
	Reach   []string
	Hang    bool
	Cfg     func(c *llsym.Config, thorough bool)
}

type llEnv struct {
	root    string // scratch root holding std/, gen/, release/
	incDirs []string
	err     error
}

var llOnce sync.Once
var llE llEnv

func runCmd(dir string, env []string, name string, args ...string) (string, error) {
	cmd := exec.Command(name, args...)
	cmd.Dir = dir
	cmd.Env = append(os.Environ(), env...)
	out, err := cmd.CombinedOutput()
	return string(out), err
}

// llGenerate builds wuffs and wuffs-c from the tree under verification and generates the C
// of std/ and of the corpus packages in harness/wuffs into a scratch root (never inside /repo).
func llGenerate() *llEnv {
	llOnce.Do(func() {
		root := filepath.Join(scratch(), "llroot")
		bin := filepath.Join(scratch(), "llbin")
		os.MkdirAll(root, 0o755)
		os.MkdirAll(bin, 0o755)
		env := []string{"GOFLAGS=-mod=readonly", "GOPROXY=off", "GOSUMDB=off", "GOTOOLCHAIN=local", "PATH=" + bin + ":" + os.Getenv("PATH")}
		for _, tool := range []string{"wuffs", "wuffs-c"} {
			if out, err := runCmd(repoDir, env, "go", "build", "-o", filepath.Join(bin, tool), "./cmd/"+tool); err != nil {
				llE.err = fmt.Errorf("building %s: %v\n%s", tool, err, out)
				return
			}
		}
		b, err := os.ReadFile(filepath.Join(repoDir, "wuffs-root-directory.txt"))
		if err != nil {
			llE.err = err
			return
		}
		os.WriteFile(filepath.Join(root, "wuffs-root-directory.txt"), b, 0o644)
		if out, err := runCmd("/", nil, "cp", "-r", filepath.Join(repoDir, "std"), filepath.Join(root, "std")); err != nil {
			llE.err = fmt.Errorf("copying std: %v %s", err, out)
			return
		}
		if out, err := runCmd(root, env, filepath.Join(bin, "wuffs"), "gen"); err != nil {
			llE.err = fmt.Errorf("wuffs gen failed on the tree's std/: %v\n%s", err, tail(out, 2000))
			return
		}
		// corpus packages
		corpus := filepath.Join(verifDir, "harness/wuffs")
		ents, _ := os.ReadDir(corpus)
		for _, en := range ents {
			if !en.IsDir() {
				continue
			}
			pdir := filepath.Join(root, "verifcorpus", en.Name())
			os.MkdirAll(pdir, 0o755)
			files, _ := filepath.Glob(filepath.Join(corpus, en.Name(), "*.wuffs"))
			var names []string
			for _, f := range files {
				bb, _ := os.ReadFile(f)
				os.WriteFile(filepath.Join(pdir, filepath.Base(f)), bb, 0o644)
				names = append(names, filepath.Base(f))
			}
			args := append([]string{"gen", "-package_name", en.Name()}, names...)
			cmd := exec.Command(filepath.Join(bin, "wuffs-c"), args...)
			cmd.Dir = pdir
			cmd.Env = append(os.Environ(), env...)
			var stderr strings.Builder
			cmd.Stderr = &stderr
			out, err := cmd.Output()
			if err != nil {
				llE.err = fmt.Errorf("wuffs-c gen of corpus package %s failed: %v\n%s", en.Name(), err, tail(stderr.String(), 2000))
				return
			}
			os.WriteFile(filepath.Join(root, "gen", "c", "wuffs-corpus-"+en.Name()+".c"), out, 0o644)
		}
		llE.root = root
		llE.incDirs = []string{filepath.Join(root, "gen", "c"), filepath.Join(root, "release", "c"), filepath.Join(verifDir, "harness/c")}
	})
	return &llE
}

var llModules = map[string]*llsym.Module{}
var llModMu sync.Mutex

func llCompile(file string) (*llsym.Module, error) {
	llModMu.Lock()
	defer llModMu.Unlock()
	if m, ok := llModules[file]; ok {
		return m, nil
	}
	env := llGenerate()
	if env.err != nil {
		return nil, env.err
	}
	src := filepath.Join(verifDir, "harness/c", file)
	out := filepath.Join(scratch(), strings.TrimSuffix(file, ".c")+".ll")
	args := []string{"-O1", "-S", "-emit-llvm", "-fno-vectorize", "-fno-slp-vectorize", "-o", out}
	for _, d := range env.incDirs {
		args = append(args, "-I", d)
	}
	args = append(args, src)
	if o, err := runCmd(scratch(), nil, "clang", args...); err != nil {
		return nil, fmt.Errorf("clang: %v\n%s", err, tail(o, 3000))
	}
	m, err := llsym.ParseFile(out)
	if err != nil {
		return nil, fmt.Errorf("parsing %s: %v", out, err)
	}
	llModules[file] = m
	return m, nil
}

func (rc *runCtx) llParams(h LLSpec) map[string]int {
	m := map[string]int{}
	for k, v := range h.Params {
		m[k] = v
	}
	if rc.thorough {
		for k, v := range h.ParamsT {
			m[k] = v
		}
	}
	if o := os.Getenv("VERIF_SET"); o != "" { // experiments only
		for _, kv := range strings.Split(o, ",") {
			if i := strings.Index(kv, "="); i > 0 {
				if v, err := strconv.Atoi(kv[i+1:]); err == nil {
					m[kv[:i]] = v
				}
			}
		}
	}
	return m
}

// llReplay compiles the harness natively with sanitizers and runs it on the recorded values.
func llReplay(file, fn string, params map[string]int, model []llsym.NondetVal, timeout time.Duration) (string, string) {
	env := llGenerate()
	n := fmt.Sprintf("%d", time.Now().UnixNano())
	dir := filepath.Join(scratch(), "llreplay-"+n)
	os.MkdirAll(dir, 0o755)
	vals := filepath.Join(dir, "values.txt")
	var sb strings.Builder
	for k, v := range params {
		fmt.Fprintf(&sb, "p %s %d\n", k, v)
	}
	for _, v := range model {
		fmt.Fprintf(&sb, "v %s %d %d\n", v.Name, v.W, v.Val)
	}
	os.WriteFile(vals, []byte(sb.String()), 0o644)
	bin := filepath.Join(dir, "replay")
	args := []string{"-O1", "-g", "-fsanitize=address,undefined", "-fno-sanitize-recover=undefined", "-DVERIF_NATIVE", "-DVERIF_HARNESS=" + fn, "-o", bin}
	for _, d := range env.incDirs {
		args = append(args, "-I", d)
	}
	args = append(args, filepath.Join(verifDir, "harness/c", file), filepath.Join(verifDir, "harness/c/verif_native.c"))
	if o, err := runCmd(dir, nil, "clang", args...); err != nil {
		return "native build failed: " + err.Error() + "\n" + tail(o, 2000), vals
	}
	ctx, cancel := context.WithTimeout(context.Background(), timeout)
	defer cancel()
	cmd := exec.CommandContext(ctx, bin)
	cmd.Env = append(os.Environ(), "VERIF_REPLAY="+vals, "ASAN_OPTIONS=detect_leaks=0")
	out, err := cmd.CombinedOutput()
	s := string(out)
	if ctx.Err() == context.DeadlineExceeded {
		s += "\nVERIF-WATCHDOG native run did not finish\n"
	} else if err != nil {
		s += "\nexit: " + err.Error() + "\n"
	}
	return s, vals
}

func (rc *runCtx) runLL(specs []LLSpec) {
	for _, h := range specs {
		if h.Tier != "" && h.Tier != rc.tier {
			continue
		}
		if rc.only != "" && !strings.Contains(h.Func+h.Label, rc.only) {
			continue
		}
		m, err := llCompile(h.File)
		if err != nil {
			rc.broken = append(rc.broken, h.File+": "+err.Error())
			continue
		}
		cfg := llsym.DefaultConfig()
		if rc.thorough {
			cfg.CheckTimeout = 300000
		}
		cfg.Deadline = rc.deadline
		cfg.Params = rc.llParams(h)
		if h.Cfg != nil {
			h.Cfg(&cfg, rc.thorough)
		}
		res := llsym.Run(m, h.Func, cfg, rc.workers)
		name := h.Func + h.Label
		rc.states += res.Paths
		rc.queries += res.Queries
		for f, n := range res.Funcs {
			rc.funcs["llvm:"+f] = n
		}
		rc.bounds[name] = map[string]interface{}{"params": cfg.Params, "unwind": cfg.Unwind, "max_steps": cfg.MaxSteps, "sym_index_cap": cfg.SymIdxCap}
		nd, nv, nu := 0, 0, 0
		for _, vs := range res.Checks {
			nd += vs["discharged"]
			nv += vs["violated"]
			nu += vs["unknown"]
		}
		rc.obligations += nd + nv + nu
		rc.discharged += nd
		rc.harnessRes = append(rc.harnessRes, sample{"harness": name, "paths": res.Paths, "ends": res.Ends, "checks_discharged": nd, "checks_violated": nv,
			"checks_unknown": nu, "queries": res.Queries, "steps": res.Steps, "wall_s": round2(res.Wall), "reached": res.Reached, "params": cfg.Params})
		fmt.Printf("harness %-34s paths=%d ends=%v checks: %d discharged, %d violated, %d unknown; queries=%d steps=%d %.1fs\n",
			name, res.Paths, res.Ends, nd, nv, nu, res.Queries, res.Steps, res.Wall)
		for _, s := range res.Internal {
			rc.broken = append(rc.broken, name+": "+s)
		}
		hangs := 0
		for i, inc := range res.Incomplete {
			if h.Hang && (strings.HasPrefix(inc, "unwind:") || strings.HasPrefix(inc, "steps:")) && !strings.Contains(inc, "wall-clock deadline") {
				hangs++
				if hangs > 2 {
					continue
				}
				rc.llCandidate(h, cfg.Params, llsym.Violation{Label: "non-termination: " + inc, Kind: "hang", Model: res.IncompleteM[i]})
				continue
			}
			rc.broken = append(rc.broken, name+": incomplete path at the registered bound: "+inc)
		}
		for _, r := range h.Reach {
			if res.Reached[r] == 0 && len(res.Violations) == 0 {
				rc.broken = append(rc.broken, fmt.Sprintf("%s: vacuity guard: label %q never reached", name, r))
			}
		}
		if len(h.Reach) > 0 && len(res.Violations) == 0 && !rc.witnessed[h.File+h.Func] {
			rc.witnessed[h.File+h.Func] = true
			r := h.Reach[len(h.Reach)-1]
			if mdl, ok := res.ReachModel[r]; ok {
				out, _ := llReplay(h.File, h.Func, cfg.Params, mdl, 60*time.Second)
				if strings.Contains(out, "VERIF-REACH "+r) && !strings.Contains(out, "VERIF-CHECK-FAILED") && !strings.Contains(out, "VERIF-MISMATCH") && !strings.Contains(out, "Sanitizer") {
					rc.replays++
					rc.samples = append(rc.samples, sample{"kind": "reachability witness replayed natively (clang -fsanitize=address,undefined)", "harness": name, "label": r})
				} else {
					rc.broken = append(rc.broken, fmt.Sprintf("%s: native replay of the reachability witness for %q disagrees with the encoding:\n%s", name, r, tail(out, 1500)))
				}
			}
		}
		for _, v := range res.Violations {
			rc.llCandidate(h, cfg.Params, v)
		}
		if len(rc.samples) < 40 {
			for label, vs := range res.Checks {
				rc.samples = append(rc.samples, sample{"kind": "assertion", "harness": name, "label": label, "verdicts": vs})
				if len(rc.samples) >= 40 {
					break
				}
			}
		}
	}
}

func (rc *runCtx) llCandidate(h LLSpec, params map[string]int, v llsym.Violation) {
	to := 60 * time.Second
	if v.Kind == "hang" {
		to = 20 * time.Second
	}
	out, vals := llReplay(h.File, h.Func, params, v.Model, to)
	cut := len(out)
	for _, marker := range []string{"VERIF-EXTRA-NONDET", "VERIF-ASSUME-FAILED", "VERIF-MISMATCH"} {
		if i := strings.Index(out, marker); i >= 0 && i < cut {
			cut = i
		}
	}
	confirmed := false
	switch v.Kind {
	case "check":
		confirmed = strings.Contains(out[:cut], "VERIF-CHECK-FAILED "+v.Label)
	case "ub":
		confirmed = strings.Contains(out, "Sanitizer") || strings.Contains(out, "runtime error:")
	case "hang":
		confirmed = strings.Contains(out, "VERIF-WATCHDOG")
	}
	name := h.Func + h.Label
	if !confirmed {
		if v.Kind == "ub" {
			// undefined behaviour that no sanitizer confirms (e.g. a poison value that is not used natively):
			// reported separately, never as a violation
			rc.extra["unconfirmed_ub"] = fmt.Sprintf("%v; %s: %s", rc.extra["unconfirmed_ub"], name, v.Label)
			rc.broken = append(rc.broken, fmt.Sprintf("UNCONFIRMED-UB %s: %s (model %v) did not reproduce under ASan/UBSan\n%s", name, v.Label, v.Model, tail(out, 800)))
			return
		}
		rc.broken = append(rc.broken, fmt.Sprintf("ENGINE-MISMATCH %s: counterexample for %q (%s) did not reproduce natively; model %v\n%s", name, v.Label, v.Kind, v.Model, tail(out, 1500)))
		return
	}
	rc.replays++
	dir := filepath.Join(evidenceDir(), "replays")
	os.MkdirAll(dir, 0o755)
	path := filepath.Join(dir, fmt.Sprintf("%s-%s-%d.txt", rc.prop.ID, h.Func, rc.replays))
	b, _ := os.ReadFile(vals)
	os.WriteFile(path, append([]byte(fmt.Sprintf("# property=%s kind=llsym file=%s func=%s label=%q\n", rc.prop.ID, h.File, h.Func, v.Label)), b...), 0o644)
	line := fmt.Sprintf("VIOLATION property=%s replay=%s", rc.prop.ID, path)
	fmt.Println(line)
	fmt.Printf("  harness=%s kind=%s label=%q\n  model=%v\n", name, v.Kind, v.Label, v.Model)
	rc.violations = append(rc.violations, line)
	rc.samples = append(rc.samples, sample{"kind": "violation replayed natively", "harness": name, "label": v.Label, "model": v.Model})
}
