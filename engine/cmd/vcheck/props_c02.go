package main

import (
	"encoding/json"
	"fmt"
	"os"
	"os/exec"
	"path/filepath"
	"strings"
	"time"

	"verif/engine/sym"
)

// buildProbe compiles helpers/wprobe against the tree under verification.
func buildProbe() (string, error) {
	dir := filepath.Join(scratch(), "wprobe")
	os.MkdirAll(dir, 0o755)
	srcs, _ := filepath.Glob(filepath.Join(verifDir, "helpers/wprobe/*.go"))
	if len(srcs) == 0 {
		return "", fmt.Errorf("helpers/wprobe: no sources")
	}
	for _, f := range srcs {
		src, err := os.ReadFile(f)
		if err != nil {
			return "", err
		}
		os.WriteFile(filepath.Join(dir, filepath.Base(f)), src, 0o644)
	}
	gomod := "module wprobe\ngo 1.23\nrequire github.com/google/wuffs v0.0.0\nreplace github.com/google/wuffs => " + repoDir + "\n"
	os.WriteFile(filepath.Join(dir, "go.mod"), []byte(gomod), 0o644)
	if b, err := os.ReadFile(filepath.Join(repoDir, "go.sum")); err == nil {
		os.WriteFile(filepath.Join(dir, "go.sum"), b, 0o644)
	}
	bin := filepath.Join(dir, "wprobe")
	cmd := exec.Command("go", "build", "-o", bin, ".")
	cmd.Dir = dir
	cmd.Env = append(os.Environ(), "GOFLAGS=-mod=mod", "GOPROXY=off", "GOSUMDB=off", "GOTOOLCHAIN=local")
	if out, err := cmd.CombinedOutput(); err != nil {
		return "", fmt.Errorf("building wprobe: %v\n%s", err, out)
	}
	return bin, nil
}

// ---- Wuffs comparison expressions -> SMT-LIB (Int) ----

type exprParser struct {
	toks []string
	pos  int
	vars map[string]bool
	err  error
}

func lexExpr(s string) []string {
	var out []string
	for i := 0; i < len(s); {
		c := s[i]
		switch {
		case c == ' ':
			i++
		case c == '(' || c == ')' || c == '+' || c == '-' || c == '*':
			out = append(out, string(c))
			i++
		case c == '<' || c == '>' || c == '=':
			j := i + 1
			for j < len(s) && (s[j] == '=' || s[j] == '>') {
				j++
			}
			out = append(out, s[i:j])
			i = j
		default:
			j := i
			for j < len(s) && (s[j] == '.' || s[j] == '_' || (s[j] >= '0' && s[j] <= '9') || (s[j] >= 'a' && s[j] <= 'z') || (s[j] >= 'A' && s[j] <= 'Z')) {
				j++
			}
			if j == i {
				return nil
			}
			out = append(out, s[i:j])
			i = j
		}
	}
	return out
}

func (p *exprParser) peek() string {
	if p.pos < len(p.toks) {
		return p.toks[p.pos]
	}
	return ""
}

func (p *exprParser) atom() string {
	tk := p.peek()
	p.pos++
	switch {
	case tk == "(":
		e := p.sum()
		if p.peek() != ")" {
			p.err = fmt.Errorf("expected )")
		}
		p.pos++
		return e
	case tk == "":
		p.err = fmt.Errorf("unexpected end")
		return "0"
	case tk[0] >= '0' && tk[0] <= '9':
		return tk
	case tk == "-":
		return "(- " + p.atom() + ")"
	default:
		name := strings.ReplaceAll(strings.TrimPrefix(tk, "args."), ".", "_")
		p.vars[name] = true
		return name
	}
}

func (p *exprParser) sum() string {
	e := p.atom()
	for p.peek() == "+" || p.peek() == "-" || p.peek() == "*" {
		op := p.peek()
		p.pos++
		e = "(" + op + " " + e + " " + p.atom() + ")"
	}
	return e
}

// cmpToSMT converts `sum OP sum`.
func cmpToSMT(s string, vars map[string]bool) (string, error) {
	p := &exprParser{toks: lexExpr(s), vars: vars}
	if p.toks == nil {
		return "", fmt.Errorf("cannot lex %q", s)
	}
	l := p.sum()
	op := p.peek()
	p.pos++
	r := p.sum()
	if p.err != nil || p.pos != len(p.toks) {
		return "", fmt.Errorf("cannot parse %q", s)
	}
	switch op {
	case "<", "<=", ">", ">=":
		return "(" + op + " " + l + " " + r + ")", nil
	case "==":
		return "(= " + l + " " + r + ")", nil
	case "<>":
		return "(not (= " + l + " " + r + "))", nil
	}
	return "", fmt.Errorf("unknown comparison %q in %q", op, s)
}

type axiomResult struct {
	Axiom        string   `json:"axiom"`
	Conclusion   string   `json:"conclusion"`
	DocPremises  []string `json:"doc_premises"`
	CodePremises []string `json:"code_premises"`
	Accepted     bool     `json:"accepted"`
	Rounds       int      `json:"rounds"`
	Log          []string `json:"log"`
	Program      string   `json:"program"`
}

func axiomScript(premises []string, conclusion string, negate bool) (string, error) {
	vars := map[string]bool{}
	var as []string
	for _, p := range premises {
		s, err := cmpToSMT(p, vars)
		if err != nil {
			return "", err
		}
		as = append(as, s)
	}
	c, err := cmpToSMT(conclusion, vars)
	if err != nil {
		return "", err
	}
	var sb strings.Builder
	for v := range vars {
		fmt.Fprintf(&sb, "(declare-const %s Int)\n", v)
	}
	for _, a := range as {
		fmt.Fprintf(&sb, "(assert %s)\n", a)
	}
	if negate {
		fmt.Fprintf(&sb, "(assert (not %s))\n", c)
	}
	sb.WriteString("(check-sat)\n(get-model)\n")
	return sb.String(), nil
}

func runAxioms(rc *runCtx) {
	bin, err := buildProbe()
	if err != nil {
		rc.broken = append(rc.broken, err.Error())
		return
	}
	out, err := exec.Command(bin, "axioms", filepath.Join(repoDir, "lang/check/data.go")).Output()
	if err != nil {
		rc.broken = append(rc.broken, "wprobe axioms: "+err.Error())
		return
	}
	var axioms []axiomResult
	if err := json.Unmarshal(out, &axioms); err != nil {
		rc.broken = append(rc.broken, "wprobe output: "+err.Error())
		return
	}
	if len(axioms) == 0 {
		rc.broken = append(rc.broken, "no axioms found in lang/check/data.go")
		return
	}
	for _, ax := range axioms {
		rc.obligations++
		rc.states++
		if !ax.Accepted {
			// the probe could not make the checker accept this axiom at all: nothing unsound can follow from it
			rc.samples = append(rc.samples, sample{"kind": "axiom never accepted by the checker in the probe program", "axiom": ax.Axiom, "log": ax.Log})
			rc.discharged++
			continue
		}
		sc, err := axiomScript(ax.CodePremises, ax.Conclusion, true)
		if err != nil {
			rc.broken = append(rc.broken, "axiom "+ax.Axiom+": "+err.Error())
			continue
		}
		rc.queries++
		r, zout := sym.RunScript(sym.Primary(), sc, 60*time.Second)
		// vacuity: the premises alone must be satisfiable
		vsc, _ := axiomScript(ax.CodePremises, ax.Conclusion, false)
		rc.queries++
		rv, _ := sym.RunScript(sym.Primary(), vsc, 60*time.Second)
		verdict := "unknown"
		switch {
		case r == sym.Unsat && rv == sym.Sat:
			verdict = "proved"
			rc.discharged++
			for _, k := range sym.Others() {
				if rc.thorough {
					r2, _ := sym.RunScript(k, sc, 60*time.Second)
					rc.crossChecked++
					if r2 == sym.Sat {
						rc.broken = append(rc.broken, "cross-solver disagreement on axiom "+ax.Axiom)
					}
				}
			}
		case r == sym.Sat:
			verdict = "REFUTED"
			// replay: the real checker accepts the probe program (it just did); the model makes the assertion false
			dir := filepath.Join(evidenceDir(), "replays")
			os.MkdirAll(dir, 0o755)
			path := filepath.Join(dir, fmt.Sprintf("C02-axiom-%d.json", rc.obligations))
			b, _ := json.MarshalIndent(map[string]interface{}{"property": "C02", "kind": "axiom", "axiom": ax.Axiom, "code_premises": ax.CodePremises,
				"conclusion": ax.Conclusion, "accepted_program": ax.Program, "counter_model": zout}, "", " ")
			os.WriteFile(path, b, 0o644)
			line := fmt.Sprintf("VIOLATION property=C02 replay=%s", path)
			fmt.Println(line)
			fmt.Printf("  axiom %s: the checker accepts it given only %v, which does not imply %s\n  %s\n", ax.Axiom, ax.CodePremises, ax.Conclusion, strings.ReplaceAll(tail(zout, 300), "\n", " "))
			rc.violations = append(rc.violations, line)
			rc.replays++
		case rv != sym.Sat:
			rc.broken = append(rc.broken, "axiom "+ax.Axiom+": premises demanded by the code are unsatisfiable or undecided (vacuous)")
		default:
			rc.broken = append(rc.broken, "axiom "+ax.Axiom+": solver returned unknown")
		}
		rc.samples = append(rc.samples, sample{"kind": "axiom", "axiom": ax.Axiom, "premises_demanded_by_the_code": ax.CodePremises, "conclusion": ax.Conclusion, "verdict": verdict, "probe_rounds": ax.Rounds})
		fmt.Printf("axiom %-52s code demands %v: %s\n", ax.Axiom, ax.CodePremises, verdict)
	}
	rc.extra["axioms"] = len(axioms)
}

func init() {
	register(&PropSpec{ID: "C02", Level: "proof",
		Outside: []string{
			"fact family: programs are drawn from a fixed statement pool (assignments, +=/-=, if/else, while with invariants and in-body probes, pure and impure calls, field writes, slice assignments, array indexing; up to 2 statements before the probe in quick, 3 in thorough) over args.x, args.y, this.f and two locals; loops are unrolled 7 times for the strongest post-condition (executions with more iterations are outside the bound; the pool's loops end within 6); facts about array elements (k == a[i] is skipped as unparsed), io_readers and coroutine suspension are outside the family",
			"premises the checker discharges by other means than listed facts (e.g. constant folding) are taken as the checker states them in its 'cannot prove' message",
		},
		Assume: []string{
			"the premises the code demands are extracted by running the real check.Check on a probe program per axiom and feeding each 'cannot prove' premise back as an enclosing if-condition until the assertion is accepted",
			"variables are base.i32[-1000 ..= 1000] arguments in the probe; the SMT proof is over unbounded integers (linear integer arithmetic, no bound)",
			"fact family: every fact the tree's checker holds at an `assert false` probe (check.Error.Facts) must be implied by the strongest post-condition of the program on every path that reaches the probe; the post-condition encoder is this check's own reading of Wuffs statement semantics (saturating/modular operators are not used in the pool)",
		},
		Custom: func(rc *runCtx) { runAxioms(rc); runFacts(rc) },
	})
}
