package main

import "fmt"

func init() {
	var specs []LLSpec
	names := []string{"limited_copy_u32_from_history", "_fast", "_fast_return_cusp", "_8_byte_chunks_fast", "_8_byte_chunks_fast_return_cusp", "_8_byte_chunks_distance_1_fast", "_8_byte_chunks_distance_1_fast_return_cusp"}
	for w, n := range names {
		specs = append(specs, LLSpec{File: "c03.c", Func: "harness_history_copy", Label: fmt.Sprintf("[%s]", n), Params: map[string]int{"WHICH": w}, Reach: []string{"history/done"}})
	}
	for _, f := range []string{"f1", "f2", "f3", "f4", "f5", "f6", "f7", "f9", "transform"} {
		specs = append(specs, LLSpec{File: "c03.c", Func: "harness_any_" + f, Params: map[string]int{"N": 6, "CALLS": 2}, ParamsT: map[string]int{"N": 8, "CALLS": 3}, Reach: []string{"any/done"}})
	}
	specs = append(specs,
		LLSpec{File: "c03.c", Func: "harness_any_adler32", Params: map[string]int{"N": 6}, ParamsT: map[string]int{"N": 12}, Reach: []string{"any/done"}},
		LLSpec{File: "c03.c", Func: "harness_any_crc32", Params: map[string]int{"N": 3}, ParamsT: map[string]int{"N": 6}, Reach: []string{"any/done"}},
	)
	specs = append(specs, LLSpec{File: "c03.c", Func: "harness_match7", Reach: []string{"match7/done"}})
	specs = append(specs, LLSpec{File: "c03.c", Func: "harness_any_scan", Params: map[string]int{"N": 12}, Reach: []string{"any/done"}})
	for _, hname := range []string{"xxhash32", "xxhash64"} {
		specs = append(specs, LLSpec{File: "c03.c", Func: "harness_any_" + hname, Params: map[string]int{"N": 20}, ParamsT: map[string]int{"N": 24}, Reach: []string{"any/done"}})
	}
	// harness_any_lzw (std/lzw on <= 2 bytes) exists in c03.c but is not registered: 86 000 paths in 8 minutes and
	// symbolic offsets with 20 530 candidate positions in the decoder's tables (unsupported) - outside the claim.
	register(&PropSpec{ID: "C03", Level: "model_checking",
		Outside: []string{
			"std/ decoders beyond the adler32, crc32, xxhash32 and xxhash64 hashers (crc64 on 20 bytes did not finish in 9 minutes) (lzw, deflate, zlib, gzip, image decoders): objects of tens of kilobytes and table-driven loops make each path too long for this engine in the time available",
			"inputs longer than N bytes; hand-written pixconv/floatconv sub-modules; SIMD variants (WUFFS_CONFIG__AVOID_CPU_ARCH build)",
			"nsw/nuw overflow flags of the IR are not checked (clang derives them from C-level reasoning; the C sources use unsigned arithmetic); misaligned accesses are not checked",
		},
		Assume: []string{
			"undefined behaviour = out-of-bounds / null / dead-object access, store to a constant, division by zero, shift by >= width, unreachable, allocator call; a path that reaches one is replayed natively under ASan+UBSan before it is reported",
			"history-copy helpers are called under exactly the pre-conditions their comments state (buffers of 40 bytes, every position, length and distance)",
		},
		Custom: func(rc *runCtx) { rc.runLL(specs) },
	})
}
