package main

import (
	"fmt"

	"verif/engine/gossa"
)

func init() {
	L := "lib/rac"
	cfg := func(c *gossa.Config, thorough bool) {
		c.IteCap = 64
		c.ConcCap = 300
		c.Unwind = 400
		c.UniqDepth = 6
	}
	p := &PropSpec{ID: "C13", Level: "model_checking",
		Outside: []string{
			"the real zlib/lz4/zstd codecs (cgo and compress/zlib internals); the writer is driven with a length-framed store codec that supports Cut",
			"payloads longer than N bytes, more than WRITES Write calls, index trees that need more than one level (arity > 255 needs >= 256 chunks)",
			"worker-goroutine reading (see C14)",
		},
		Assume: []string{
			"stub CodecWriter/CodecReader: frame [n, secondary+1, tertiary+1, n bytes]; Cut truncates and patches n; resources are chosen nondeterministically per chunk",
			"the specification walker in harness/go/c13 (written from doc/spec/rac-spec.md: root discovery, branch-node validation, parent/child rules, anti-loop rule, MakeCRange) is the trusted structural oracle",
			"hash/crc32.ChecksumIEEE is evaluated on concrete index bytes; the walker uses its own bitwise CRC-32",
		},
	}
	add := func(fn, tier string, n, writes, mode, size, page, ila, temp, res int, reach []string, extra map[string]int) {
		params := map[string]int{"N": n, "WRITES": writes, "MODE": mode, "SIZE": size, "PAGE": page, "ILA": ila, "TEMP": temp, "RES": res}
		for k, v := range extra {
			params[k] = v
		}
		p.Harnesses = append(p.Harnesses, HSpec{Prop: "C13", Pkg: L, Dir: "c13", Func: fn, Tier: tier, Cfg: cfg,
			Label: fmt.Sprintf("[n=%d writes=%d mode=%d size=%d page=%d ila=%d temp=%d res=%d]", n, writes, mode, size, page, ila, temp, res), Params: params, Reach: reach})
	}
	rt := []string{"rt/done"}
	//                               n  w  mode size page ila temp res
	add("VH_C13_RoundTrip", "quick", 8, 2, 1, 1, 0, 0, 0, 0, rt, nil)
	add("VH_C13_RoundTrip", "quick", 6, 3, 1, 2, 8, 1, 2, 1, rt, nil)
	add("VH_C13_RoundTrip", "quick", 4, 2, 0, 2, 4, 1, 1, 1, rt, nil)
	add("VH_C13_RoundTrip", "quick", 5, 3, 0, 3, 4, 0, 0, 2, rt, nil)
	add("VH_C13_RoundTrip", "quick", 0, 1, 0, 2, 0, 0, 0, 0, rt, nil)
	add("VH_C13_RoundTrip", "quick", 0, 1, 1, 2, 4, 1, 1, 0, rt, nil)
	ft := []string{"fault/reported", "fault/not-hit"}
	add("VH_C13_Fault", "quick", 3, 2, 0, 2, 4, 0, 0, 1, ft, map[string]int{"MAXFAIL": 9})
	add("VH_C13_Fault", "quick", 3, 2, 1, 1, 4, 1, 1, 0, ft, map[string]int{"MAXFAIL": 12})
	add("VH_C13_Fault", "quick", 2, 1, 0, 1, 0, 1, 2, 1, ft, map[string]int{"MAXFAIL": 12})
	// thorough: one step beyond the quick bounds (the earlier n=8 / three-write / two-resource
	// configurations did not finish within the 90-minute budget: 880 000 paths)
	add("VH_C13_RoundTrip", "thorough", 8, 3, 1, 1, 0, 0, 0, 0, rt, nil)
	add("VH_C13_RoundTrip", "thorough", 7, 3, 1, 2, 8, 1, 2, 1, rt, nil)
	add("VH_C13_RoundTrip", "thorough", 6, 3, 0, 3, 4, 0, 0, 2, rt, nil)
	add("VH_C13_Fault", "thorough", 4, 2, 1, 1, 4, 1, 2, 1, ft, map[string]int{"MAXFAIL": 16})
	for _, mc := range [][3]int{{0, 0, 0}, {0, 16, 0}, {1, 0, 1}, {1, 64, 1}, {0, 4, 1}} { // ila, page, thorough-only
		ila, page := mc[0], mc[1]
		p.Harnesses = append(p.Harnesses, HSpec{Prop: "C13", Pkg: L, Dir: "c13", Func: "VH_C13_ManyChunks", Cfg: func(c *gossa.Config, thorough bool) {
			cfg(c, thorough)
			c.MaxSteps = 400_000_000
		}, Label: fmt.Sprintf("[ila=%d page=%d]", ila, page), Tier: map[int]string{0: "", 1: "thorough"}[mc[2]],
			Params: map[string]int{"CHUNKS": 300, "PAGE": page, "ILA": ila, "RES": 2}, Reach: []string{"many/done"}})
	}
	for op := 0; op < 3; op++ {
		p.Harnesses = append(p.Harnesses, HSpec{Prop: "C13", Pkg: L, Dir: "c13", Func: "VH_C13_WriteBuffer", Aux: true, Cfg: cfg, Label: fmt.Sprintf("[op=%d]", op),
			Params: map[string]int{"NP": 3, "NC": 3, "OP": op}, Reach: []string{"wbuf/done"}})
	}
	register(p)
}
