package main

import (
	"fmt"

	"verif/engine/gossa"
)

func init() {
	cfg := func(c *gossa.Config, thorough bool) {
		c.IteCap = 64
		c.ConcCap = 300
		c.Unwind = 200
		c.UniqDepth = 6
	}
	p := &PropSpec{ID: "C14", Level: "model_checking",
		Outside: []string{
			"Concurrency > 0: the manager/worker goroutines, channels and select of conc_reader.go are not encoded (gossa has no scheduler model), so schedules, deadlock, goroutine leaks and data races are NOT covered by this check",
			"files other than three layouts written by the real Writer from one 17-byte payload and one hand-built spec-valid file with a three-level index; scripts longer than CALLS calls; buffers longer than MAXREAD",
			"lib/readerat (the ReadSeeker used here is not an io.ReaderAt)",
		},
		Assume: []string{
			"the model is an in-memory reader with a position and a limit (Seek resets the limit to the size, SeekRange sets it); a Read that reaches the limit may return io.EOF together with the data or nil (both allowed by io.Reader)",
			"after a call that must fail (negative position, inverted range) the script stops: rac.Reader keeps that error, an in-memory reader has no such state",
		},
	}
	for layout := 0; layout < 5; layout++ {
		p.Harnesses = append(p.Harnesses, HSpec{Prop: "C14", Pkg: "lib/rac", Dir: "c14", Func: "VH_C14_Seq", Cfg: cfg,
			Label: fmt.Sprintf("[layout=%d]", layout), Params: map[string]int{"LAYOUT": layout, "CALLS": 2, "MAXREAD": 6, "RES": 0}, ParamsT: map[string]int{"CALLS": 3, "MAXREAD": 9},
			Reach: []string{"seq/done", "seq/call"}})
	}
	register(p)
}
