package main

import "verif/engine/gossa"

func init() {
	pfx := "github.com/google/wuffs/lib/litonlylzma."
	stubRaw := func(c *gossa.Config, thorough bool) {
		c.Replace = map[string]string{pfx + "encodeRaw": "!vhStubEncodeRaw", pfx + "decodeRaw": "!vhStubDecodeRaw"}
	}
	big := func(c *gossa.Config, thorough bool) { c.ConcCap = 300; c.IteCap = 256 }
	// the 32-bit multiply lemmas take 6-20 s on an idle machine and went past the default 60 s on a loaded one
	lemma := func(c *gossa.Config, thorough bool) { c.CheckTimeout = 300000 }
	p := &PropSpec{ID: "C17", Level: "model_checking",
		Outside: []string{
			"acceptance of the output by the xz tool and by Wuffs std/lzma, std/xz (external decoders are not encodable)",
			"round trips beyond N payload bytes; chunks above 64 KiB except through the stubbed raw coder (NMAX bytes)",
			"the 'output no larger than a fixed multiple of the input' clause beyond MAXSIZE declared bytes",
			"pendingExtra chains longer than MAXEXTRA in the step lemma (64-bit arithmetic of the harness)",
		},
		Assume: []string{
			"VH_C17_XzFrame replaces encodeRaw/decodeRaw by a stub raw coder with decodeRaw(encodeRaw(x)) = x and nondeterministic length",
			"hash/crc32.ChecksumIEEE on symbolic bytes is an uninterpreted (functionally consistent) function",
			"step lemmas assume prob in [31, 2017] (checked to be preserved) and width >= 2^24 (checked to be re-established)",
		},
	}
	L := "lib/litonlylzma"
	p.Harnesses = []HSpec{
		{Prop: "C17", Pkg: L, Dir: "c17", Func: "VH_C17_RoundTrip", Label: "[lzma]", Params: map[string]int{"N": 1, "XZ": 0}, ParamsT: map[string]int{"N": 2}, Reach: []string{"rt/done"}, Cfg: big},
		{Prop: "C17", Pkg: L, Dir: "c17", Func: "VH_C17_RoundTrip", Label: "[xz]", Params: map[string]int{"N": 1, "XZ": 1}, ParamsT: map[string]int{"N": 2}, Reach: []string{"rt/done"}, Cfg: big},
		{Prop: "C17", Pkg: L, Dir: "c17", Func: "VH_C17_RoundTrip", Label: "[lzma,empty]", Params: map[string]int{"N": 0, "XZ": 0}, Reach: []string{"rt/done"}},
		{Prop: "C17", Pkg: L, Dir: "c17", Func: "VH_C17_RoundTrip", Label: "[xz,empty]", Params: map[string]int{"N": 0, "XZ": 1}, Reach: []string{"rt/done"}},
		{Prop: "C17", Pkg: L, Dir: "c17", Func: "VH_C17_XzFrame", Params: map[string]int{"NMAX": 10}, ParamsT: map[string]int{"NMAX": 14}, Reach: []string{"xz/done"}, Cfg: stubRaw},
		{Prop: "C17", Pkg: L, Dir: "c17", Func: "VH_C17_XzFrameBig", Label: "[tail=0]", Params: map[string]int{"TAIL": 0}, Reach: []string{"xzbig/done"}, Cfg: stubRaw},
		{Prop: "C17", Pkg: L, Dir: "c17", Func: "VH_C17_XzFrameBig", Label: "[tail=2]", Params: map[string]int{"TAIL": 2}, Reach: []string{"xzbig/done"}, Cfg: stubRaw},
		{Prop: "C17", Pkg: L, Dir: "c17", Func: "VH_C17_RobustLZMA", Params: map[string]int{"N": 19, "MAXSIZE": 1}, ParamsT: map[string]int{"N": 20}, Reach: []string{"robust/done"}},
		{Prop: "C17", Pkg: L, Dir: "c17", Func: "VH_C17_RobustLZMA", Label: "[short]", Params: map[string]int{"N": 12, "MAXSIZE": 1}, Reach: []string{"robust/done"}},
		{Prop: "C17", Pkg: L, Dir: "c17", Func: "VH_C17_RobustXz", Tier: "thorough", Params: map[string]int{"M": 12}, Reach: []string{"robustxz/done"}},
		{Prop: "C17", Pkg: L, Dir: "c17", Func: "VH_C17_RobustXz", Label: "[m=8]", Params: map[string]int{"M": 8}, Reach: []string{"robustxz/done"}},
		{Prop: "C17", Pkg: L, Dir: "c17", Func: "VH_C17_Uvarint", Aux: true, Reach: []string{"uvarint/done"}},
		{Prop: "C17", Pkg: L, Dir: "c17", Func: "VH_C17_UvarintTotal", Aux: true, Params: map[string]int{"N": 10}, Reach: []string{"uvarinttotal/done"}},
		{Prop: "C17", Pkg: L, Dir: "c17", Func: "VH_C17_EncStep", Aux: true, Params: map[string]int{"MAXEXTRA": 1}, Reach: []string{"encstep/done"}, Cfg: lemma},
		{Prop: "C17", Pkg: L, Dir: "c17", Func: "VH_C17_Duality", Aux: true, Reach: []string{"duality/done"}, Cfg: lemma},
		{Prop: "C17", Pkg: L, Dir: "c17", Func: "VH_C17_ShiftLowLong", Aux: true, Reach: []string{"shiftlong/done"}, Cfg: big},
	}
	register(p)
}
