package main

import (
	"fmt"

	"verif/engine/gossa"
)

func init() {
	cfg := func(c *gossa.Config, thorough bool) {
		c.IteCap = 256
		c.ConcCap = 300
		c.Unwind = 64
		c.MaxSteps = 300_000
		c.UniqDepth = 6
	}
	p := &PropSpec{ID: "C12", Level: "model_checking",
		Outside: []string{
			"texts longer than N free bytes outside the templates; template holes longer than HOLE bytes (1 byte; 2-byte holes took 45 minutes per template and are not registered) or outside the significant alphabet",
			"the Wuffs formatter on whole programs beyond the token sequences listed (see the render harness bounds)",
		},
		Assume: []string{
			"'lexically closed' is decided by the reference lexer in harness/go/c12 (comments, raw strings, cooked strings closing on their line, preprocessor lines opaque), written from the package documentation",
			"a path that exhausts the step budget (300k interpreted instructions for a text of <= 16 bytes) is a candidate hang, replayed natively under a watchdog",
		},
	}
	L := "lib/dumbindent"
	for opts := 0; opts < 4; opts++ {
		tier := ""
		if opts != 0 && opts != 3 {
			tier = "thorough"
		}
		nT := 4 // 5-byte texts take 10 minutes per option set: thorough only for the two sets that are also in quick
		if tier == "" {
			nT = 5
		}
		p.Harnesses = append(p.Harnesses, HSpec{Prop: "C12", Pkg: L, Dir: "c12", Func: "VH_C12_Indent", Tier: tier, Cfg: cfg, Hang: true,
			Label: fmt.Sprintf("[opts=%d]", opts), Params: map[string]int{"N": 4, "OPTS": opts}, ParamsT: map[string]int{"N": nT}, Reach: []string{"indent/done"}})
	}
	for first := 0; first < 2; first++ {
		for second := 0; second < 8; second++ {
			p.Harnesses = append(p.Harnesses, HSpec{Prop: "C12", Pkg: L, Dir: "c12", Func: "VH_C12_IndentTemplate", Cfg: cfg, Hang: true,
				Label: fmt.Sprintf("[first=%d second=%d]", first, second), Params: map[string]int{"FIRST": first, "SECOND": second, "HOLE": 1, "OPTS": second % 4}, Reach: []string{"tpl/done"}})
		}
	}
	for q := 0; q < 2; q++ {
		p.Harnesses = append(p.Harnesses, HSpec{Prop: "C12", Pkg: L, Dir: "c12", Func: "VH_C12_IndentCooked", Cfg: cfg, Hang: true,
			Label: fmt.Sprintf("[quote=%d]", q), Params: map[string]int{"QUOTE": q, "HOLE": 3, "OPTS": q * 3}, Reach: []string{"cooked/done"}})
	}
	for _, opts := range []int{0, 3} {
		p.Harnesses = append(p.Harnesses, HSpec{Prop: "C12", Pkg: L, Dir: "c12", Func: "VH_C12_IndentPreproc", Cfg: cfg, Hang: true,
			Label: fmt.Sprintf("[opts=%d]", opts), Params: map[string]int{"HOLE": 2, "OPTS": opts}, Reach: []string{"preproc/done"}})
	}
	for _, n := range []int{1, 2, 5, 8, 10} {
		tier := ""
		if n == 10 {
			tier = "thorough"
		}
		p.Harnesses = append(p.Harnesses, HSpec{Prop: "C12", Pkg: "lang/render", Dir: "c12r", Func: "VH_C12_Num", Aux: true, Tier: tier, Cfg: cfg,
			Label: fmt.Sprintf("[n=%d]", n), Params: map[string]int{"N": n}, Reach: []string{"num/done"}})
	}
	register(p)
}
