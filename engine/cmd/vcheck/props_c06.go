package main

import "verif/engine/gossa"

func init() {
	ops := []string{"Add", "Sub", "Mul", "Lsh", "Quo", "Rsh", "And", "Or", "Unite", "Intersect"}
	p := &PropSpec{ID: "C06", Level: "model_checking", BigW: 32,
		Outside: []string{
			"interval endpoints and members with |v| >= 2^K (K in bounds)",
			"shift amounts above S, hence the Exp-based fallback of bigIntLsh/bigIntRsh for shifts above 2^32",
			"tightness outside [-T,T) endpoints (shift amounts above TS)",
			"IntRange.String",
		},
		Assume: []string{
			"math/big.Int is modelled as a signed 32-bit bit-vector; every operation whose exact result might not fit raises an obligation and a path where it can fail is reported as incomplete, never passed",
			"reference operators are Go's int32 operators on the same symbolic values (truncating /, arithmetic >>, two's-complement & |)",
		},
	}
	merge := func(c *gossa.Config, thorough bool) {
		pfx := "github.com/google/wuffs/lib/interval."
		c.Merge = map[string]bool{pfx + "bitFillRight": true, "(" + pfx + "IntRange).andMax": true, "(" + pfx + "IntRange).orMax": true}
	}
	for _, op := range ops {
		reach := []string{"ok"}
		k, kt, bw := 8, 12, 0
		if op == "Mul" {
			k, kt, bw = 5, 6, 20 // K=7 did not finish within the 90-minute budget
		}
		straddle, straddleT := 1, 1
		if op == "And" || op == "Or" {
			// quick: neither operand straddles zero (the mixed case is the union of up to four such calls); thorough: unrestricted
			k, straddle, straddleT = 10, 0, 1
		}
		p.Harnesses = append(p.Harnesses, HSpec{Prop: "C06", Pkg: "lib/interval", Dir: "c06", Func: "VH_C06_" + op, NeedBig: true, BigW: bw, Cfg: merge,
			Params: map[string]int{"K": k, "S": 8, "STRADDLE": straddle}, ParamsT: map[string]int{"K": kt, "S": 16, "STRADDLE": straddleT}, Reach: reach})
	}
	for _, op := range ops {
		p.Harnesses = append(p.Harnesses, HSpec{Prop: "C06", Pkg: "lib/interval", Dir: "c06", Func: "VH_C06_Tight_" + op, NeedBig: true, Cfg: merge,
			Params: map[string]int{"T": 8, "TS": 4, "TB": 4}, ParamsT: map[string]int{"T": 32, "TS": 6, "TB": 6}, Reach: []string{"tight"}})
	}
	register(p)
}
