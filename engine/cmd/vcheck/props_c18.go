package main

import (
	"fmt"

	"verif/engine/gossa"
)

func init() {
	L := "lib/lowleveljpeg"
	ite := func(c *gossa.Config, thorough bool) { c.IteCap = 256; c.ConcCap = 300; c.Unwind = 200; c.FeasTimeoutMs = 30000 }
	p := &PropSpec{ID: "C18", Level: "model_checking",
		Outside: []string{
			"dense blocks (more than 2 symbolic AC coefficients per unit); the 448-bytes-per-block buffer argument is covered only compositionally (<= 7 bytes per coefficient, VH_C18_HuffRun)",
			"quantisation tables other than the three listed (default, all-1/all-255, quality 97)",
			"|IDCT(FDCT(x)) - x| <= 1 and the forward-DCT range lemma (fixed-point linear maps: unknown within 100 s when probed)",
			"'no allocation' (an allocator property, not a symbolic one); io.Writer failures",
		},
		Assume: []string{
			"the baseline-JPEG reader in harness/go/c18 (marker segments, canonical Huffman codes from the DHT bytes written by the encoder, unstuffing, EXTEND) is the trusted oracle",
		},
	}
	// sparse-block harnesses: colour type x pattern x quant choice
	add := func(tier string, ct, pattern, quant, units, crop, symblock int) {
		p.Harnesses = append(p.Harnesses, HSpec{Prop: "C18", Pkg: L, Dir: "c18", Func: "VH_C18_Blocks", Tier: tier, Cfg: ite,
			Label:  fmt.Sprintf("[ct=%d pat=%d q=%d units=%d]", ct, pattern, quant, units),
			Params: map[string]int{"CT": ct, "PATTERN": pattern, "QUANT": quant, "UNITS": units, "CROP": crop, "SYMBLOCK": symblock}, Reach: []string{"blocks/done"}})
	}
	add("quick", 0, 0, 0, 2, 3, 0)
	add("thorough", 0, 1, 0, 1, 0, 0)
	add("quick", 0, 4, 1, 1, 5, 0)
	add("thorough", 0, 3, 1, 1, 5, 0)
	add("thorough", 0, 0, 0, 2, 3, 0)
	// (ct 1 and 2 - three / six blocks per unit, each with a symbolic DC - ran for more than 40 minutes
	// without finishing even with no symbolic ACs: not registered; Units/Misuse cover all colour types)
	// patterns 2 and 5..9 were never seen to finish within 15 minutes (two-unit variants square the
	// path count): the thorough tier keeps patterns 0, 1, 3, 4, each measured at 60-170 s
	p.Harnesses = append(p.Harnesses,
		HSpec{Prop: "C18", Pkg: L, Dir: "c18", Func: "VH_C18_Misuse", Reach: []string{"misuse/done", "misuse/bad-reset"}, Cfg: ite},
		HSpec{Prop: "C18", Pkg: L, Dir: "c18", Func: "VH_C18_Reuse", Reach: []string{"reuse/done"}, Cfg: ite},
		HSpec{Prop: "C18", Pkg: L, Dir: "c18", Func: "VH_C18_Div", Aux: true, Reach: []string{"div/done"}},
		HSpec{Prop: "C18", Pkg: L, Dir: "c18", Func: "VH_C18_EmitBits", Aux: true, Reach: []string{"emitbits/done"}},
	)
	for t := 0; t < 4; t++ {
		p.Harnesses = append(p.Harnesses, HSpec{Prop: "C18", Pkg: L, Dir: "c18", Func: "VH_C18_HuffRun", Aux: true, Label: fmt.Sprintf("[table=%d]", t),
			Params: map[string]int{"TABLE": t, "RUNS": 1}, ParamsT: map[string]int{"RUNS": 0}, Reach: []string{"huffrun/done"}, Cfg: ite})
	}
	for ct := 0; ct < 3; ct++ {
		for mode := 0; mode < 4; mode++ {
			p.Harnesses = append(p.Harnesses, HSpec{Prop: "C18", Pkg: L, Dir: "c18", Func: "VH_C18_Units", Aux: true, Single: true, Label: fmt.Sprintf("[ct=%d mode=%d]", ct, mode),
				Params: map[string]int{"CT": ct, "MODE": mode}, Reach: []string{"units/done"}})
		}
	}
	register(p)
}
