package main

import (
	"bytes"
	"context"
	"go/ast"
	"go/parser"
	"go/printer"
	"go/token"
	"encoding/json"
	"fmt"
	"os"
	"os/exec"
	"path/filepath"
	"strconv"
	"strings"
	"sync/atomic"
	"time"

	"verif/engine/gossa"
	"verif/engine/llsym"
)

var scratchRoot string
var replayCtr int64

func scratch() string {
	if scratchRoot == "" {
		scratchRoot = fmt.Sprintf("/var/tmp/verif-work.%d", os.Getpid())
		os.MkdirAll(scratchRoot, 0o755)
	}
	return scratchRoot
}

func cleanupScratch() {
	if scratchRoot != "" && os.Getenv("VERIF_KEEP_SCRATCH") == "" { // kept only for debugging an experiment
		os.RemoveAll(scratchRoot)
	}
}

type replayDoc struct {
	Property string            `json:"property"`
	Harness  string            `json:"harness"`
	Pkg      string            `json:"pkg"`
	Dir      string            `json:"dir"`
	PkgName  string            `json:"pkg_name"`
	NeedBig  bool              `json:"need_big"`
	Params   map[string]int    `json:"params"`
	Known    map[string]bool   `json:"known"`
	Values   []gossa.NondetVal `json:"values"`
	Kind     string            `json:"kind,omitempty"`
	Label    string            `json:"label,omitempty"`
	Stack    string            `json:"stack,omitempty"`
	TimeoutS int               `json:"timeout_s"`
	Replace  map[string]string `json:"replace,omitempty"` // Config.Replace entries, applied natively by source rewriting
	Exclude  []string          `json:"exclude,omitempty"` // auxiliary harness files that do not type-check against the tree
}

// runReplay compiles the harness natively (overlay with the native prelude and
// a generated test) and runs it on the recorded values.
func runReplay(doc *replayDoc, docPath string) (string, error) {
	n := atomic.AddInt64(&replayCtr, 1)
	dir := filepath.Join(scratch(), fmt.Sprintf("replay-%d", n))
	os.MkdirAll(dir, 0o755)
	defer os.RemoveAll(dir)
	hdir := filepath.Join(verifDir, "harness/go", doc.Dir)
	ov, pkgName, err := readOverlayDir(hdir, doc.Pkg, true, nil)
	if err != nil {
		return "", err
	}
	for k, v := range preludeFiles(doc.Pkg, pkgName, true, doc.NeedBig) {
		ov[k] = v
	}
	for _, ex := range doc.Exclude {
		delete(ov, filepath.Join(repoDir, doc.Pkg, ex))
	}
	test := fmt.Sprintf(`package %s

import (
	"os"
	"testing"
)

func TestVerifReplay(t *testing.T) {
	vLoad(os.Getenv("VERIF_REPLAY"))
	%s()
	if len(vFailed) > 0 {
		t.Fatalf("VERIF-FAILED %%v", vFailed)
	}
}
`, pkgName, doc.Harness)
	ov[filepath.Join(repoDir, doc.Pkg, "zz_verif_replay_test.go")] = []byte(test)
	if err := nativeReplace(doc, ov); err != nil {
		return "", err
	}
	repl := map[string]string{}
	i := 0
	for virt, content := range ov {
		real := filepath.Join(dir, fmt.Sprintf("f%d_%s", i, filepath.Base(virt)))
		i++
		if err := os.WriteFile(real, content, 0o644); err != nil {
			return "", err
		}
		repl[virt] = real
	}
	ovb, _ := json.Marshal(map[string]interface{}{"Replace": repl})
	ovPath := filepath.Join(dir, "overlay.json")
	os.WriteFile(ovPath, ovb, 0o644)
	to := doc.TimeoutS
	if to <= 0 {
		to = 60
	}
	ctx, cancel := context.WithTimeout(context.Background(), time.Duration(to+120)*time.Second)
	defer cancel()
	cmd := exec.CommandContext(ctx, "go", "test", "-vet=off", "-count=1", "-run", "^TestVerifReplay$", "-v",
		"-timeout", fmt.Sprintf("%ds", to), "-overlay", ovPath, "./"+doc.Pkg)
	cmd.Dir = repoDir
	cmd.Env = append(os.Environ(), "GOFLAGS=-mod=readonly", "GOPROXY=off", "GOSUMDB=off", "GOTOOLCHAIN=local", "VERIF_REPLAY="+docPath,
		"GOCACHE="+goCache())
	out, err := cmd.CombinedOutput()
	return string(out), err
}

// nativeReplace applies Config.Replace entries that name plain functions of the package
// under test to the native build: the function is renamed and a wrapper with its signature
// calls the harness stub, so that the native run executes what the symbolic run executed.
// Entries naming other packages (e.g. compress/flate.NewReader) are left alone: natively the
// real function runs, which also validates the model used in its place.
func nativeReplace(doc *replayDoc, ov map[string][]byte) error {
	if len(doc.Replace) == 0 {
		return nil
	}
	prefix := gossa.WuffsModule + "/" + doc.Pkg + "."
	want := map[string]string{}
	for full, stub := range doc.Replace {
		// only "!" entries (replace always) are executable natively; the others are uninterpreted-function summaries
		if strings.HasPrefix(stub, "!") && strings.HasPrefix(full, prefix) && !strings.ContainsAny(full[len(prefix):], "().*") {
			want[full[len(prefix):]] = strings.TrimPrefix(stub, "!")
		}
	}
	if len(want) == 0 {
		return nil
	}
	dir := filepath.Join(repoDir, doc.Pkg)
	ents, err := os.ReadDir(dir)
	if err != nil {
		return err
	}
	fset := token.NewFileSet()
	for _, en := range ents {
		if !strings.HasSuffix(en.Name(), ".go") || strings.HasSuffix(en.Name(), "_test.go") {
			continue
		}
		path := filepath.Join(dir, en.Name())
		src, err := os.ReadFile(path)
		if err != nil {
			return err
		}
		f, err := parser.ParseFile(fset, path, src, 0)
		if err != nil {
			continue
		}
		type edit struct {
			off  int
			name string
		}
		var edits []edit
		var extra strings.Builder
		for _, d := range f.Decls {
			fd, ok := d.(*ast.FuncDecl)
			if !ok || fd.Recv != nil {
				continue
			}
			stub, ok := want[fd.Name.Name]
			if !ok {
				continue
			}
			edits = append(edits, edit{fset.Position(fd.Name.Pos()).Offset, fd.Name.Name})
			var tb bytes.Buffer
			printer.Fprint(&tb, fset, fd.Type)
			sig := strings.TrimPrefix(tb.String(), "func")
			var args []string
			for _, fl := range fd.Type.Params.List {
				for _, n := range fl.Names {
					a := n.Name
					if _, variadic := fl.Type.(*ast.Ellipsis); variadic {
						a += "..."
					}
					args = append(args, a)
				}
			}
			ret := ""
			if fd.Type.Results != nil && len(fd.Type.Results.List) > 0 {
				ret = "return "
			}
			fmt.Fprintf(&extra, "\nfunc %s%s {\n\t%s%s(%s)\n}\n", fd.Name.Name, sig, ret, stub, strings.Join(args, ", "))
			delete(want, fd.Name.Name)
		}
		if len(edits) == 0 {
			continue
		}
		out := string(src)
		for i := len(edits) - 1; i >= 0; i-- {
			e := edits[i]
			out = out[:e.off] + e.name + "__verifOrig" + out[e.off+len(e.name):]
		}
		ov[path] = []byte(out + extra.String())
	}
	for name := range want {
		return fmt.Errorf("native replace: function %s not found in %s", name, doc.Pkg)
	}
	return nil
}

func goCache() string {
	if c := os.Getenv("GOCACHE"); c != "" {
		return c
	}
	home, _ := os.UserHomeDir()
	return filepath.Join(home, ".cache/go-build")
}

func (rc *runCtx) mkDoc(g *group, pkgName string, h HSpec, params map[string]int, m []gossa.NondetVal, to time.Duration) *replayDoc {
	cfg := gossa.DefaultConfig()
	if h.Cfg != nil {
		h.Cfg(&cfg, rc.thorough)
	}
	return &replayDoc{Property: rc.prop.ID, Harness: h.Func, Pkg: g.pkg, Dir: g.dir, PkgName: pkgName, NeedBig: g.needBig, Params: params,
		Known: rc.knownAct, Values: m, TimeoutS: int(to.Seconds()), Replace: cfg.Replace, Exclude: g.dropped}
}

// nativeReplay runs a model natively with a throw-away replay file.
func (rc *runCtx) nativeReplay(g *group, pkgName string, h HSpec, params map[string]int, m []gossa.NondetVal, to time.Duration) (string, error) {
	doc := rc.mkDoc(g, pkgName, h, params, m, to)
	n := atomic.AddInt64(&replayCtr, 1)
	p := filepath.Join(scratch(), fmt.Sprintf("replay-%d.json", n))
	b, _ := json.MarshalIndent(doc, "", " ")
	os.WriteFile(p, b, 0o644)
	defer os.Remove(p)
	return runReplay(doc, p)
}

// nativeReplayKeep writes the replay file under /verif/evidence/replays and runs it.
func (rc *runCtx) nativeReplayKeep(g *group, pkgName string, h HSpec, params map[string]int, m []gossa.NondetVal, to time.Duration, v gossa.Violation) (string, string) {
	doc := rc.mkDoc(g, pkgName, h, params, m, to)
	doc.Kind, doc.Label, doc.Stack = v.Kind, v.Label, v.Stack
	dir := filepath.Join(evidenceDir(), "replays")
	os.MkdirAll(dir, 0o755)
	n := atomic.AddInt64(&replayCtr, 1)
	p := filepath.Join(dir, fmt.Sprintf("%s-%s-%d.json", rc.prop.ID, h.Func, n))
	b, _ := json.MarshalIndent(doc, "", " ")
	os.WriteFile(p, b, 0o644)
	out, _ := runReplay(doc, p)
	return out, p
}

// replayFile re-runs a stored counterexample: exit 1 if it still fails.
func replayFile(path string) int {
	defer cleanupScratch()
	b, err := os.ReadFile(path)
	if err != nil {
		fmt.Fprintln(os.Stderr, err)
		return 2
	}
	if strings.HasPrefix(string(b), "# property=") {
		// llsym counterexample: header line, then the values file of the native runtime
		lines := strings.Split(string(b), "\n")
		hdr := map[string]string{}
		for _, f := range strings.Fields(lines[0][2:]) {
			if i := strings.Index(f, "="); i > 0 {
				hdr[f[:i]] = strings.Trim(f[i+1:], `"`)
			}
		}
		label := ""
		if i := strings.Index(lines[0], "label="); i >= 0 {
			label = strings.Trim(lines[0][i+6:], `"`)
		}
		params := map[string]int{}
		var model []llsym.NondetVal
		for _, ln := range lines[1:] {
			f := strings.Fields(ln)
			if len(f) == 3 && f[0] == "p" {
				v, _ := strconv.Atoi(f[2])
				params[f[1]] = v
			} else if len(f) == 4 && f[0] == "v" {
				w, _ := strconv.Atoi(f[2])
				v, _ := strconv.ParseUint(f[3], 10, 64)
				model = append(model, llsym.NondetVal{Name: f[1], W: w, Val: v})
			}
		}
		out, _ := llReplay(hdr["file"], hdr["func"], params, model, 60*time.Second)
		fmt.Print(out)
		if strings.Contains(out, "VERIF-CHECK-FAILED") || strings.Contains(out, "Sanitizer") || strings.Contains(out, "runtime error:") || strings.Contains(out, "VERIF-WATCHDOG") {
			fmt.Printf("VIOLATION property=%s replay=%s (%s)\n", hdr["property"], path, label)
			return 1
		}
		fmt.Println("replay did not reproduce the failure")
		return 0
	}
	var generic struct {
		Property string `json:"property"`
		Kind     string `json:"kind"`
	}
	json.Unmarshal(b, &generic)
	if generic.Kind == "axiom" || generic.Kind == "facts" || generic.Kind == "llsym" {
		// these counterexamples are re-derived from the tree rather than replayed from recorded values:
		// re-run the property's check and report its verdict
		self, _ := os.Executable()
		cmd := exec.Command(self, generic.Property, "--tier", "quick")
		cmd.Stdout, cmd.Stderr = os.Stdout, os.Stderr
		cmd.Env = append(os.Environ(), "VERIF_EVIDENCE_DIR="+filepath.Join(scratch(), "replay-evidence"))
		if err := cmd.Run(); err != nil {
			if ee, ok := err.(*exec.ExitError); ok {
				return ee.ExitCode()
			}
			return 2
		}
		fmt.Println("replay did not reproduce the failure")
		return 0
	}
	var doc replayDoc
	if err := json.Unmarshal(b, &doc); err != nil {
		fmt.Fprintln(os.Stderr, err)
		return 2
	}
	abs, _ := filepath.Abs(path)
	out, _ := runReplay(&doc, abs)
	fmt.Print(out)
	fails := false
	switch doc.Kind {
	case "check":
		cut := len(out)
		for _, marker := range []string{"VERIF-EXTRA-NONDET", "VERIF-ASSUME-FAILED", "VERIF-MISMATCH"} {
			if i := strings.Index(out, marker); i >= 0 && i < cut {
				cut = i
			}
		}
		fails = strings.Contains(out[:cut], "VERIF-CHECK-FAILED "+doc.Label)
	case "panic":
		fails = strings.Contains(out, "panic:")
	case "hang":
		fails = strings.Contains(out, "test timed out")
	default:
		fails = strings.Contains(out, "VERIF-CHECK-FAILED") || strings.Contains(out, "panic:")
	}
	if fails {
		fmt.Printf("VIOLATION property=%s replay=%s\n", doc.Property, path)
		return 1
	}
	fmt.Println("replay did not reproduce the failure")
	return 0
}
