package main

import (
	"context"
	"encoding/json"
	"fmt"
	"os"
	"os/exec"
	"path/filepath"
	"strings"
	"sync/atomic"
	"time"

	"verif/engine/gossa"
)

var scratchRoot string
var replayCtr int64

func scratch() string {
	if scratchRoot == "" {
		scratchRoot = fmt.Sprintf("/var/tmp/verif-work.%d", os.Getpid())
		os.MkdirAll(scratchRoot, 0o755)
	}
	return scratchRoot
}

func cleanupScratch() {
	if scratchRoot != "" {
		os.RemoveAll(scratchRoot)
	}
}

type replayDoc struct {
	Property string            `json:"property"`
	Harness  string            `json:"harness"`
	Pkg      string            `json:"pkg"`
	Dir      string            `json:"dir"`
	PkgName  string            `json:"pkg_name"`
	NeedBig  bool              `json:"need_big"`
	Params   map[string]int    `json:"params"`
	Known    map[string]bool   `json:"known"`
	Values   []gossa.NondetVal `json:"values"`
	Kind     string            `json:"kind,omitempty"`
	Label    string            `json:"label,omitempty"`
	Stack    string            `json:"stack,omitempty"`
	TimeoutS int               `json:"timeout_s"`
}

// runReplay compiles the harness natively (overlay with the native prelude and
// a generated test) and runs it on the recorded values.
func runReplay(doc *replayDoc, docPath string) (string, error) {
	n := atomic.AddInt64(&replayCtr, 1)
	dir := filepath.Join(scratch(), fmt.Sprintf("replay-%d", n))
	os.MkdirAll(dir, 0o755)
	defer os.RemoveAll(dir)
	hdir := filepath.Join(verifDir, "harness/go", doc.Dir)
	ov, pkgName, err := readOverlayDir(hdir, doc.Pkg, true, nil)
	if err != nil {
		return "", err
	}
	for k, v := range preludeFiles(doc.Pkg, pkgName, true, doc.NeedBig) {
		ov[k] = v
	}
	test := fmt.Sprintf(`package %s

import (
	"os"
	"testing"
)

func TestVerifReplay(t *testing.T) {
	vLoad(os.Getenv("VERIF_REPLAY"))
	%s()
	if len(vFailed) > 0 {
		t.Fatalf("VERIF-FAILED %%v", vFailed)
	}
}
`, pkgName, doc.Harness)
	ov[filepath.Join(repoDir, doc.Pkg, "zz_verif_replay_test.go")] = []byte(test)
	repl := map[string]string{}
	i := 0
	for virt, content := range ov {
		real := filepath.Join(dir, fmt.Sprintf("f%d_%s", i, filepath.Base(virt)))
		i++
		if err := os.WriteFile(real, content, 0o644); err != nil {
			return "", err
		}
		repl[virt] = real
	}
	ovb, _ := json.Marshal(map[string]interface{}{"Replace": repl})
	ovPath := filepath.Join(dir, "overlay.json")
	os.WriteFile(ovPath, ovb, 0o644)
	to := doc.TimeoutS
	if to <= 0 {
		to = 60
	}
	ctx, cancel := context.WithTimeout(context.Background(), time.Duration(to+120)*time.Second)
	defer cancel()
	cmd := exec.CommandContext(ctx, "go", "test", "-vet=off", "-count=1", "-run", "^TestVerifReplay$", "-v",
		"-timeout", fmt.Sprintf("%ds", to), "-overlay", ovPath, "./"+doc.Pkg)
	cmd.Dir = repoDir
	cmd.Env = append(os.Environ(), "GOFLAGS=-mod=readonly", "GOPROXY=off", "GOSUMDB=off", "GOTOOLCHAIN=local", "VERIF_REPLAY="+docPath,
		"GOCACHE="+goCache())
	out, err := cmd.CombinedOutput()
	return string(out), err
}

func goCache() string {
	if c := os.Getenv("GOCACHE"); c != "" {
		return c
	}
	home, _ := os.UserHomeDir()
	return filepath.Join(home, ".cache/go-build")
}

func (rc *runCtx) mkDoc(g *group, pkgName string, h HSpec, params map[string]int, m []gossa.NondetVal, to time.Duration) *replayDoc {
	return &replayDoc{Property: rc.prop.ID, Harness: h.Func, Pkg: g.pkg, Dir: g.dir, PkgName: pkgName, NeedBig: g.needBig, Params: params,
		Known: rc.knownAct, Values: m, TimeoutS: int(to.Seconds())}
}

// nativeReplay runs a model natively with a throw-away replay file.
func (rc *runCtx) nativeReplay(g *group, pkgName string, h HSpec, params map[string]int, m []gossa.NondetVal, to time.Duration) (string, error) {
	doc := rc.mkDoc(g, pkgName, h, params, m, to)
	n := atomic.AddInt64(&replayCtr, 1)
	p := filepath.Join(scratch(), fmt.Sprintf("replay-%d.json", n))
	b, _ := json.MarshalIndent(doc, "", " ")
	os.WriteFile(p, b, 0o644)
	defer os.Remove(p)
	return runReplay(doc, p)
}

// nativeReplayKeep writes the replay file under /verif/evidence/replays and runs it.
func (rc *runCtx) nativeReplayKeep(g *group, pkgName string, h HSpec, params map[string]int, m []gossa.NondetVal, to time.Duration, v gossa.Violation) (string, string) {
	doc := rc.mkDoc(g, pkgName, h, params, m, to)
	doc.Kind, doc.Label, doc.Stack = v.Kind, v.Label, v.Stack
	dir := filepath.Join(evidenceDir(), "replays")
	os.MkdirAll(dir, 0o755)
	n := atomic.AddInt64(&replayCtr, 1)
	p := filepath.Join(dir, fmt.Sprintf("%s-%s-%d.json", rc.prop.ID, h.Func, n))
	b, _ := json.MarshalIndent(doc, "", " ")
	os.WriteFile(p, b, 0o644)
	out, _ := runReplay(doc, p)
	return out, p
}

// replayFile re-runs a stored counterexample: exit 1 if it still fails.
func replayFile(path string) int {
	defer cleanupScratch()
	b, err := os.ReadFile(path)
	if err != nil {
		fmt.Fprintln(os.Stderr, err)
		return 2
	}
	var doc replayDoc
	if err := json.Unmarshal(b, &doc); err != nil {
		fmt.Fprintln(os.Stderr, err)
		return 2
	}
	abs, _ := filepath.Abs(path)
	out, _ := runReplay(&doc, abs)
	fmt.Print(out)
	fails := false
	switch doc.Kind {
	case "check":
		cut := len(out)
		for _, marker := range []string{"VERIF-EXTRA-NONDET", "VERIF-ASSUME-FAILED", "VERIF-MISMATCH"} {
			if i := strings.Index(out, marker); i >= 0 && i < cut {
				cut = i
			}
		}
		fails = strings.Contains(out[:cut], "VERIF-CHECK-FAILED "+doc.Label)
	case "panic":
		fails = strings.Contains(out, "panic:")
	case "hang":
		fails = strings.Contains(out, "test timed out")
	default:
		fails = strings.Contains(out, "VERIF-CHECK-FAILED") || strings.Contains(out, "panic:")
	}
	if fails {
		fmt.Printf("VIOLATION property=%s replay=%s\n", doc.Property, path)
		return 1
	}
	fmt.Println("replay did not reproduce the failure")
	return 0
}
