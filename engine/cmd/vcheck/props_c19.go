package main

import (
	"fmt"

	"verif/engine/gossa"
)

// c19Configs searches image sizes whose encoded rows hit the interesting
// offsets of the encoder's 64 KiB buffer. The layout constants are the
// documented ones; they only steer the choice of sizes, the oracle is the
// PNG walker in the harness.
func c19Configs(thorough bool) []map[string]int {
	const eiFirst, eiLater, ejMax = 0x30, 0x0D, 0xFFF8
	type cfg struct{ w, h int }
	var out []map[string]int
	seen := map[string]bool{}
	for typ := 0; typ < 6; typ++ {
		k := []int{1, 3, 4, 2, 6, 8}[typ]
		in := []int{1, 4, 4, 2, 8, 8}[typ]
		best := map[string]cfg{}
		cost := func(c cfg) int { return c.w * c.h * in }
		try := func(target string, c cfg) {
			if b, ok := best[target]; !ok || cost(c) < cost(b) {
				best[target] = c
			}
		}
		maxTotal := 150000
		for w := 1; w*k < 70000; w++ {
			if w > 40 && w%7 != 0 && w%11 != 3 && w < 60000/k {
				continue // thin out the search
			}
			ej := eiFirst
			chunk := 0
			for h := 1; h*(1+k*w) <= maxTotal; h++ {
				// one more row
				if ej+1 > ejMax {
					ej = eiLater
					chunk++
				}
				if ej == ejMax {
					try(fmt.Sprintf("filter-at-limit/%d", min(chunk, 1)), cfg{w, h})
				}
				ej++
				for x := 0; x < w; x++ {
					if ej+k > ejMax {
						if ej == ejMax-k+1 && k > 1 {
							try(fmt.Sprintf("pixel-one-short/%d", min(chunk, 1)), cfg{w, h})
						}
						ej = eiLater
						chunk++
					}
					if ej+k == ejMax {
						try(fmt.Sprintf("pixel-fills-exactly/%d", min(chunk, 1)), cfg{w, h})
					}
					ej += k
				}
				// if the image ended here:
				switch {
				case ej == 65516:
					try("iend-fits-exactly", cfg{w, h})
				case ej == 65517:
					try("iend-separate-by-one", cfg{w, h})
				case ej == ejMax:
					try("final-at-limit", cfg{w, h})
				}
			}
		}
		for target, c := range best {
			key := fmt.Sprintf("%d/%d/%d", typ, c.w, c.h)
			if seen[key] {
				continue
			}
			seen[key] = true
			_ = target
			out = append(out, map[string]int{"TYPE": typ, "W": c.w, "H": c.h, "SLACK": (c.w + typ) % 3, "DIRTY": (c.w + c.h) % 2})
		}
	}
	return out
}

func init() {
	pfx := "github.com/google/wuffs/lib/uncompng."
	stub := func(c *gossa.Config, thorough bool) {
		c.Replace = map[string]string{
			pfx + "crc32IEEE": "vhStubCRC",
			"(*" + pfx + "Encoder).updateAdler32": "vhStubUpdateAdler32",
			pfx + "vhAdlerRef": "vhStubAdlerRef",
		}
		c.MaxSteps = 400_000_000
	}
	p := &PropSpec{ID: "C19", Level: "model_checking",
		Outside: []string{
			"image sizes other than [1,MAXWH]^2 and the listed boundary configurations",
			"io.Writer errors (only the error-free writer is modelled)",
			"CRC-32 beyond N symbolic bytes and Adler-32 beyond N symbolic bytes per call (kernel lemmas); in the framing harnesses both are uninterpreted functions of their byte arguments",
			"the 5552-byte NMAX no-overflow argument of updateAdler32",
		},
		Assume: []string{
			"in VH_C19_Small/Boundary crc32IEEE and updateAdler32 are replaced by uninterpreted functions of (state, bytes); the walker applies the same functions, so framing, placement and chaining are checked, the arithmetic kernels are checked separately by VH_C19_CRCKernel/CRCTable/AdlerKernel",
			"the PNG/zlib/deflate-stored walker in harness/go/c19 is the trusted oracle (RFC 1950/1951 stored blocks, PNG chunk framing)",
		},
	}
	for typ := 0; typ < 6; typ++ {
		p.Harnesses = append(p.Harnesses, HSpec{Prop: "C19", Pkg: "lib/uncompng", Dir: "c19", Func: "VH_C19_Small", Label: fmt.Sprintf("[type=%d]", typ),
			Params: map[string]int{"MAXWH": 2, "TYPE": typ}, ParamsT: map[string]int{"MAXWH": 3}, Reach: []string{"small/done"}, Cfg: stub})
	}
	p.Harnesses = append(p.Harnesses, HSpec{Prop: "C19", Pkg: "lib/uncompng", Dir: "c19", Func: "VH_C19_Args", Reach: []string{"args/done"}})
	for _, typ := range []int{0, 4} {
		p.Harnesses = append(p.Harnesses, HSpec{Prop: "C19", Pkg: "lib/uncompng", Dir: "c19", Func: "VH_C19_Header", Label: fmt.Sprintf("[type=%d]", typ),
			Params: map[string]int{"TYPE": typ}, Reach: []string{"header/done"}, Cfg: stub})
	}
	for _, tier := range []string{"quick", "thorough"} {
		cfgs := c19Configs(tier == "thorough")
		for i, c := range cfgs {
			if tier == "quick" && i%3 != 0 {
				continue
			}
			p.Harnesses = append(p.Harnesses, HSpec{Prop: "C19", Pkg: "lib/uncompng", Dir: "c19", Func: "VH_C19_Boundary", Tier: tier, Single: true,
				Label: fmt.Sprintf("[type=%d w=%d h=%d]", c["TYPE"], c["W"], c["H"]), Params: c, Reach: []string{"boundary/done"}, Cfg: stub})
		}
	}
	kern := func(c *gossa.Config, thorough bool) { c.IteCap = 256 }
	p.Harnesses = append(p.Harnesses,
		HSpec{Prop: "C19", Pkg: "lib/uncompng", Dir: "c19", Func: "VH_C19_CRCTable", Aux: true, Reach: []string{"crctable/done"}},
		HSpec{Prop: "C19", Pkg: "lib/uncompng", Dir: "c19", Func: "VH_C19_CRCKernel", Aux: true, Params: map[string]int{"N": 1}, Label: "[n=1]", Reach: []string{"crc/done"}, Cfg: kern},
		HSpec{Prop: "C19", Pkg: "lib/uncompng", Dir: "c19", Func: "VH_C19_CRCKernel", Aux: true, Params: map[string]int{"N": 2}, Label: "[n=2]", Reach: []string{"crc/done"}, Cfg: kern},
		HSpec{Prop: "C19", Pkg: "lib/uncompng", Dir: "c19", Func: "VH_C19_AdlerKernel", Aux: true, Params: map[string]int{"N": 16}, ParamsT: map[string]int{"N": 64}, Reach: []string{"adler/done"}},
		HSpec{Prop: "C19", Pkg: "lib/uncompng", Dir: "c19", Func: "VH_C19_AdlerBlock", Aux: true, Params: map[string]int{"N": 11200}, Reach: []string{"adlerblock/done"},
			Cfg: func(c *gossa.Config, thorough bool) { c.Unwind = 12000; c.MaxSteps = 5_000_000 }},
	)
	register(p)
}
