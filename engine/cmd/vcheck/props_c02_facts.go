package main

import (
	"encoding/json"
	"fmt"
	"os"
	"os/exec"
	"path/filepath"
	"sort"
	"strings"
	"sync"
	"time"

	"verif/engine/sym"
)

// Fact soundness on a bounded family of straight-line / branching Wuffs programs.
//
// Each program is built from a small statement pool, rendered as Wuffs text and given to the
// real checker (helpers/wprobe, built from the tree under verification) with an `assert false`
// probe; the checker's answer lists the facts it holds at the probe. The same program is
// executed symbolically here (strongest post-condition over SMT integers: arguments and
// fields arbitrary inside their refined types, locals zero-initialised), and z3 is asked, for
// every fact, for an input that reaches the probe and makes the fact false.

type fExpr struct {
	op   string // "var", "const", "+", "-"
	name string
	k    int
	a, b *fExpr
}

func fv(n string) *fExpr        { return &fExpr{op: "var", name: n} }
func fk(k int) *fExpr           { return &fExpr{op: "const", k: k} }
func fb(op string, a, b *fExpr) *fExpr { return &fExpr{op: op, a: a, b: b} }

func (e *fExpr) wuffs() string {
	switch e.op {
	case "var":
		return e.name
	case "const":
		return fmt.Sprint(e.k)
	case "index":
		return e.name + "[" + e.a.wuffs() + "]"
	case "slice":
		lo, hi := "", ""
		if e.a != nil {
			lo = e.a.wuffs() + " "
		}
		if e.b != nil {
			hi = " " + e.b.wuffs()
		}
		return e.name + "[" + lo + ".." + hi + "]"
	}
	l, r := e.a.wuffs(), e.b.wuffs()
	if e.a.op == "+" || e.a.op == "-" || e.a.op == "%" || e.a.op == ">>" {
		l = "(" + l + ")"
	}
	if e.b.op == "+" || e.b.op == "-" || e.b.op == "%" || e.b.op == ">>" {
		r = "(" + r + ")"
	}
	return l + " " + e.op + " " + r
}

type fStmt struct {
	kind string // "assign", "if", "probe"
	lhs  string
	op   string // "=", "+=", "-="
	rhs  *fExpr
	cmp  string // if: lhs cmp rhs
	cl   *fExpr
	cr   *fExpr
	then []fStmt
	els  []fStmt
	inv  [][3]interface{} // while: invariants (lhs expr, cmp, rhs expr)
	post [][3]interface{} // while: post-conditions
}

func renderStmts(sb *strings.Builder, ss []fStmt, indent string) {
	for _, s := range ss {
		switch s.kind {
		case "assign":
			fmt.Fprintf(sb, "%s%s %s %s\n", indent, s.lhs, s.op, s.rhs.wuffs())
		case "probe":
			fmt.Fprintf(sb, "%sassert false\n", indent)
		case "call":
			fmt.Fprintf(sb, "%s%s\n", indent, s.lhs)
		case "while":
			if len(s.inv) == 0 && len(s.post) == 0 {
				fmt.Fprintf(sb, "%swhile %s %s %s {\n", indent, s.cl.wuffs(), s.cmp, s.cr.wuffs())
			} else {
				fmt.Fprintf(sb, "%swhile %s %s %s,\n", indent, s.cl.wuffs(), s.cmp, s.cr.wuffs())
				for _, iv := range s.inv {
					fmt.Fprintf(sb, "%s\t\tinv %s %s %s,\n", indent, iv[0].(*fExpr).wuffs(), iv[1].(string), iv[2].(*fExpr).wuffs())
				}
				for _, iv := range s.post {
					fmt.Fprintf(sb, "%s\t\tpost %s %s %s,\n", indent, iv[0].(*fExpr).wuffs(), iv[1].(string), iv[2].(*fExpr).wuffs())
				}
				fmt.Fprintf(sb, "%s{\n", indent)
			}
			renderStmts(sb, s.then, indent+"\t")
			fmt.Fprintf(sb, "%s}\n", indent)
		case "if":
			fmt.Fprintf(sb, "%sif %s %s %s {\n", indent, s.cl.wuffs(), s.cmp, s.cr.wuffs())
			renderStmts(sb, s.then, indent+"\t")
			if s.els != nil {
				fmt.Fprintf(sb, "%s} else {\n", indent)
				renderStmts(sb, s.els, indent+"\t")
			}
			fmt.Fprintf(sb, "%s}\n", indent)
		}
	}
}

const factsPrologue = `pub struct foo?(
	f : base.u32[..= 100],
)

pri func foo.clobber!() {
	this.f = 77
}

pri func foo.bump!(d: base.u32[..= 7]) base.u32 {
	this.f = args.d
	return 5
}

pri func foo.bar!(x: base.u32[..= 100], y: base.u32[..= 7]) {
	var i : base.u32[..= 1000]
	var j : base.u32[..= 1000]
	var a : array[8] base.u8
	var s : slice base.u8
	var k : base.u8
`

func renderProgram(ss []fStmt) string {
	var sb strings.Builder
	sb.WriteString(factsPrologue)
	renderStmts(&sb, ss, "\t")
	sb.WriteString("}\n")
	return sb.String()
}

// ---- strongest post-condition ----

type spState struct {
	vals map[string]string // variable -> SMT term
	pc   []string
	obl  [][2]string // (description, formula): obligations the checker must have proved on the way (slice bounds)
}

func (s *spState) clone() *spState {
	n := &spState{vals: map[string]string{}, pc: append([]string(nil), s.pc...), obl: append([][2]string(nil), s.obl...)}
	for k, v := range s.vals {
		n.vals[k] = v
	}
	return n
}

func (e *fExpr) smt(st *spState) string {
	switch e.op {
	case "var":
		return st.vals[e.name]
	case "const":
		return fmt.Sprint(e.k)
	}
	switch e.op {
	case "%":
		return "(mod " + e.a.smt(st) + " " + e.b.smt(st) + ")"
	case ">>":
		return "(div " + e.a.smt(st) + " " + fmt.Sprint(1<<uint(e.b.k)) + ")"
	}
	return "(" + e.op + " " + e.a.smt(st) + " " + e.b.smt(st) + ")"
}

func cmpSMT(op, l, r string) string {
	switch op {
	case "==":
		return "(= " + l + " " + r + ")"
	case "<>":
		return "(not (= " + l + " " + r + "))"
	}
	return "(" + op + " " + l + " " + r + ")"
}

const spUnroll = 7

func applySimple(s fStmt, st *spState) {
	switch s.kind {
	case "call":
		// the impure callees of the prologue: clobber sets this.f = 77; bump(d: y) sets this.f = y and returns 5
		switch s.lhs {
		case "this.clobber!()":
			st.vals["this.f"] = "77"
		case "j = this.bump!(d: args.y)":
			st.vals["this.f"] = st.vals["args.y"]
			st.vals["j"] = "5"
		}
	case "assign":
		if s.rhs.op == "index" {
			// k = a[e]: 0 <= e < 8 is the checker's obligation; the element value is arbitrary
			e := s.rhs.a.smt(st)
			st.obl = append(st.obl, [2]string{"in bounds: " + s.rhs.wuffs(), "(and (<= 0 " + e + ") (< " + e + " 8))"})
			st.vals["k"] = fmt.Sprintf("kf%d", len(st.obl)%16) // an arbitrary element value (kf0..kf15 are declared per batch)
			return
		}
		if s.rhs.op == "slice" {
			// lhs = base[lo .. hi]: the new length is hi - lo; 0 <= lo <= hi <= base length is the checker's obligation
			blen := "8"
			if s.rhs.name == "s" {
				blen = st.vals["s.length()"]
			}
			lo, hi := "0", blen
			if s.rhs.a != nil {
				lo = s.rhs.a.smt(st)
			}
			if s.rhs.b != nil {
				hi = s.rhs.b.smt(st)
			}
			st.obl = append(st.obl, [2]string{"in bounds: " + s.rhs.wuffs(), "(and (<= 0 " + lo + ") (<= " + lo + " " + hi + ") (<= " + hi + " " + blen + "))"})
			st.vals["s.length()"] = "(- " + hi + " " + lo + ")"
			return
		}
		r := s.rhs.smt(st)
		switch s.op {
		case "=":
			st.vals[s.lhs] = r
		case "+=":
			st.vals[s.lhs] = "(+ " + st.vals[s.lhs] + " " + r + ")"
		case "-=":
			st.vals[s.lhs] = "(- " + st.vals[s.lhs] + " " + r + ")"
		}
		// the assigned value must lie inside the refinement of the destination: the checker's obligation
		hi := "1000"
		if s.lhs == "this.f" {
			hi = "100"
		}
		st.obl = append(st.obl, [2]string{"inside the destination's refinement: " + s.lhs + " " + s.op + " " + s.rhs.wuffs(), "(and (<= 0 " + st.vals[s.lhs] + ") (<= " + st.vals[s.lhs] + " " + hi + "))"})
	}
}

// spRun executes ss path by path (if and while fork; loops are unrolled spUnroll times, longer
// executions are outside the bound). It returns the states in which the probe is reached and,
// when the probe is not inside ss, the states after ss.
func spRun(ss []fStmt, states []*spState) (probes, after []*spState) {
	for _, s := range ss {
		switch s.kind {
		case "probe":
			for _, st := range states {
				probes = append(probes, st.clone())
			}
			return probes, nil
		case "assign", "call":
			for _, st := range states {
				applySimple(s, st)
			}
		case "if":
			var next []*spState
			for _, st := range states {
				c := cmpSMT(s.cmp, s.cl.smt(st), s.cr.smt(st))
				ts, es := st.clone(), st.clone()
				ts.pc = append(ts.pc, c)
				es.pc = append(es.pc, "(not "+c+")")
				p1, a1 := spRun(s.then, []*spState{ts})
				p2, a2 := spRun(s.els, []*spState{es})
				probes = append(probes, p1...)
				probes = append(probes, p2...)
				next = append(next, a1...)
				next = append(next, a2...)
			}
			if len(probes) > 0 {
				return probes, nil
			}
			states = next
		case "while":
			var exits []*spState
			cur := states
			for k := 0; k <= spUnroll && len(cur) > 0; k++ {
				var next []*spState
				for _, st := range cur {
					c := cmpSMT(s.cmp, s.cl.smt(st), s.cr.smt(st))
					ex, en := st.clone(), st.clone()
					ex.pc = append(ex.pc, "(not "+c+")")
					en.pc = append(en.pc, c)
					exits = append(exits, ex)
					if k == spUnroll {
						continue
					}
					p, a := spRun(s.then, []*spState{en})
					probes = append(probes, p...)
					next = append(next, a...)
				}
				cur = next
			}
			if len(probes) > 0 {
				return probes, nil
			}
			states = exits
		}
	}
	return nil, states
}

func factsPool() ([]fStmt, []fStmt) {
	x, y, i, j, f := fv("args.x"), fv("args.y"), fv("i"), fv("j"), fv("this.f")
	as := func(l, op string, r *fExpr) fStmt { return fStmt{kind: "assign", lhs: l, op: op, rhs: r} }
	simple := []fStmt{
		as("i", "=", x),
		as("i", "=", fb("+", x, fk(1))),
		as("i", "=", fb("+", i, fk(1))),
		as("i", "=", fb("+", i, y)),
		as("i", "+=", fk(2)),
		as("i", "+=", y),
		as("i", "+=", i),
		as("i", "-=", i),
		as("i", "=", fb("-", fk(500), i)),
		as("j", "=", i),
		as("j", "=", fb("+", i, y)),
		as("j", "+=", i),
		as("i", "=", j),
		as("i", "=", fb("+", j, j)),
		as("this.f", "=", x),
		as("i", "=", f),
		as("i", "=", fk(7)),
		as("j", "-=", y),
		{kind: "call", lhs: "this.clobber!()"},
		{kind: "call", lhs: "j = this.bump!(d: args.y)"},
	}
	conds := []fStmt{
		{kind: "if", cl: x, cmp: "<", cr: fk(50)},
		{kind: "if", cl: i, cmp: "<", cr: j},
		{kind: "if", cl: i, cmp: "==", cr: fb("+", j, fk(1))},
		{kind: "if", cl: j, cmp: ">=", cr: y},
		{kind: "if", cl: i, cmp: "<=", cr: fk(3)},
		{kind: "if", cl: f, cmp: "<>", cr: x},
		// constant on the left
		{kind: "if", cl: fk(50), cmp: ">=", cr: x},
		{kind: "if", cl: fk(3), cmp: "<", cr: i},
		{kind: "if", cl: fk(7), cmp: "<=", cr: j},
		{kind: "if", cl: fk(5), cmp: ">", cr: y},
		{kind: "if", cl: fk(60), cmp: "==", cr: f},
	}
	return simple, conds
}

// factsPrograms enumerates the family: up to `depth` simple statements, optionally with one
// if (probe inside the then-branch, inside the else-branch, or after the join).
func factsPrograms(depth int, withIf bool) [][]fStmt {
	simple, conds := factsPool()
	var seqs [][]fStmt
	var rec func(cur []fStmt, d int)
	rec = func(cur []fStmt, d int) {
		if len(cur) > 0 {
			seqs = append(seqs, append([]fStmt(nil), cur...))
		}
		if d == depth {
			return
		}
		for _, s := range simple {
			rec(append(cur, s), d+1)
		}
	}
	rec(nil, 0)
	var out [][]fStmt
	probe := fStmt{kind: "probe"}
	for _, s := range seqs {
		out = append(out, append(append([]fStmt(nil), s...), probe))
	}
	if withIf {
		pres := [][]fStmt{nil, {simple[0]}, {simple[1]}, {simple[16]}, {simple[0], simple[10]}, {simple[14]}, {simple[14], simple[18]}}
		bodies := [][]fStmt{{simple[2]}, {simple[4]}, {simple[5]}, {simple[7]}, {simple[9]}, {simple[11]}, {simple[12]}, {simple[8]}, {simple[15]}, {simple[0]}, {simple[18]}, {simple[19]}}
		alts := []fStmt{simple[2], simple[6], simple[10], simple[16], simple[0], simple[15]}
		for _, pre := range pres {
			for _, c := range conds {
				for _, body := range bodies {
					for _, a := range alts {
						// probe in then; probe in else; probe after the join; probe after a statement following the join
						c1 := c
						c1.then = append(append([]fStmt(nil), body...), probe)
						out = append(out, append(append([]fStmt(nil), pre...), c1))
						c2 := c
						c2.then = body
						c2.els = []fStmt{a, probe}
						out = append(out, append(append([]fStmt(nil), pre...), c2))
						c3 := c
						c3.then = body
						c3.els = []fStmt{a}
						out = append(out, append(append([]fStmt(nil), pre...), c3, probe))
						c4 := c
						c4.then = body
						out = append(out, append(append([]fStmt(nil), pre...), c4, a, probe))
					}
				}
			}
		}
	}
	// while loops: probe after the loop, at the start of the body, at the end of the body
	x, y, i, j, f := fv("args.x"), fv("args.y"), fv("i"), fv("j"), fv("this.f")
	_ = f
	as := func(l, op string, r *fExpr) fStmt { return fStmt{kind: "assign", lhs: l, op: op, rhs: r} }
	inv := func(l *fExpr, cmp string, r *fExpr) [3]interface{} { return [3]interface{}{l, cmp, r} }
	type loopT struct {
		head fStmt
		body []fStmt
	}
	loops := []loopT{
		{fStmt{kind: "while", cl: i, cmp: "<", cr: fk(3)}, []fStmt{as("i", "+=", fk(1))}},
		{fStmt{kind: "while", cl: i, cmp: "<", cr: fk(5), inv: [][3]interface{}{inv(j, "<=", fk(100))}}, []fStmt{as("i", "+=", fk(1)), as("j", "=", x)}},
		{fStmt{kind: "while", cl: i, cmp: "<", cr: j}, []fStmt{as("i", "+=", fk(1))}},
		{fStmt{kind: "while", cl: i, cmp: "<", cr: fk(4), inv: [][3]interface{}{inv(j, "==", y)}}, []fStmt{as("i", "+=", fk(2))}},
		{fStmt{kind: "while", cl: fk(2), cmp: ">", cr: i}, []fStmt{as("i", "+=", fk(1)), {kind: "call", lhs: "this.clobber!()"}}},
		{fStmt{kind: "while", cl: i, cmp: "<>", cr: fk(6), inv: [][3]interface{}{inv(i, "<=", fk(6))}}, []fStmt{as("i", "+=", fk(1))}},
		{fStmt{kind: "while", cl: j, cmp: "<", cr: fk(3), inv: [][3]interface{}{inv(i, "==", fb("+", j, j))}}, []fStmt{as("j", "+=", fk(1)), as("i", "+=", fk(2))}},
	}
	I := func(l *fExpr, cmp string, r *fExpr) [][3]interface{} { return [][3]interface{}{inv(l, cmp, r)} }
	loops = append(loops,
		// post-conditions that follow from the invariants and the negated condition ...
		loopT{fStmt{kind: "while", cl: i, cmp: "<", cr: fk(3), post: I(i, ">=", fk(3))}, []fStmt{as("i", "+=", fk(1))}},
		loopT{fStmt{kind: "while", cl: i, cmp: "<", cr: fk(3), inv: I(i, "<=", fk(3)), post: I(i, "==", fk(3))}, []fStmt{as("i", "+=", fk(1))}},
		loopT{fStmt{kind: "while", cl: i, cmp: "<>", cr: fk(4), inv: I(j, "==", y), post: I(j, "==", y)}, []fStmt{as("i", "+=", fk(1))}},
		// ... and post-conditions that only hold before the loop is entered (the body falsifies them):
		// the checker has to reject these; if it accepts one, the post-condition is a false fact afterwards
		loopT{fStmt{kind: "while", cl: i, cmp: "<", cr: fk(3), post: I(j, "==", fk(0))}, []fStmt{as("j", "=", fk(9)), as("i", "+=", fk(1))}},
		loopT{fStmt{kind: "while", cl: i, cmp: "<", cr: fk(3), post: I(j, "==", y)}, []fStmt{as("j", "=", x), as("i", "+=", fk(1))}},
		loopT{fStmt{kind: "while", cl: i, cmp: "<", cr: fk(5), post: I(j, "<=", fk(7))}, []fStmt{as("j", "+=", fk(2)), as("i", "+=", fk(1))}},
		loopT{fStmt{kind: "while", cl: i, cmp: "<", cr: fk(3), inv: I(i, "<=", fk(3)), post: I(f, "==", x)}, []fStmt{{kind: "call", lhs: "this.clobber!()"}, as("i", "+=", fk(1))}},
	)
	lpres := [][]fStmt{nil, {as("i", "=", y)}, {as("j", "=", x)}, {as("j", "=", y)}, {as("i", "=", fk(7))}, {as("this.f", "=", x)}}
	lposts := [][]fStmt{nil, {as("j", "=", i)}, {as("i", "+=", fk(1))}, {as("i", "=", fb("+", i, y))}}
	for _, pre := range lpres {
		for _, lp := range loops {
			for _, post := range lposts {
				h := lp.head
				h.then = lp.body
				out = append(out, append(append(append([]fStmt(nil), pre...), h), append(append([]fStmt(nil), post...), probe)...))
			}
			h1 := lp.head
			h1.then = append([]fStmt{probe}, lp.body...)
			out = append(out, append(append([]fStmt(nil), pre...), h1))
			h2 := lp.head
			h2.then = append(append([]fStmt(nil), lp.body...), probe)
			out = append(out, append(append([]fStmt(nil), pre...), h2))
		}
	}
	// slices: s = a[lo .. hi] / s = s[lo .. hi] with constant, omitted and variable indexes; the
	// checker's facts about s.length() and its acceptance of the index ranges are both checked
	sl := func(base string, lo, hi *fExpr) fStmt {
		return fStmt{kind: "assign", lhs: "s", op: "=", rhs: &fExpr{op: "slice", name: base, a: lo, b: hi}}
	}
	slen := fv("s.length()")
	firsts := []fStmt{
		sl("a", nil, nil), sl("a", fk(2), fk(6)), sl("a", nil, fk(8)), sl("a", fk(3), nil), sl("a", y, nil), sl("a", nil, y), sl("a", y, fk(8)),
		sl("a", fk(0), y), sl("a", i, fk(8)), sl("a", i, nil), sl("a", nil, i), sl("a", fk(2), i), sl("a", i, j), sl("a", y, y), sl("a", i, i),
	}
	seconds := []fStmt{
		sl("s", fk(1), nil), sl("s", nil, fk(2)), sl("s", fk(1), fk(2)), sl("s", y, nil), sl("s", nil, y), sl("s", nil, nil), sl("s", i, nil), sl("s", nil, i),
		sl("a", fk(2), fk(6)), sl("a", y, nil), sl("a", nil, nil),
		as("i", "+=", fk(1)), as("i", "=", y), as("j", "=", i), as("i", "=", fk(2)), {kind: "call", lhs: "this.clobber!()"},
	}
	spres := [][]fStmt{nil, {as("i", "=", y)}, {as("i", "=", fk(3))}, {as("i", "=", y), as("j", "=", fk(8))}, {as("j", "=", y)}, {as("i", "=", fk(2)), as("j", "=", fb("+", i, y))}}
	guards := []fStmt{
		{kind: "if", cl: i, cmp: "<=", cr: fk(8)},
		{kind: "if", cl: i, cmp: "<", cr: fk(5)},
		{kind: "if", cl: j, cmp: "<=", cr: fk(8)},
		{kind: "if", cl: i, cmp: "<=", cr: j},
		{kind: "if", cl: slen, cmp: ">=", cr: fk(2)},
		{kind: "if", cl: slen, cmp: "==", cr: fk(8)},
		{kind: "if", cl: fk(1), cmp: "<", cr: slen},
	}
	for _, pre := range spres {
		for _, f1 := range firsts {
			out = append(out, append(append([]fStmt(nil), pre...), f1, probe))
			for _, f2 := range seconds {
				out = append(out, append(append([]fStmt(nil), pre...), f1, f2, probe))
			}
			for _, g := range guards {
				// slice under a guard; guard after the slice with a second statement inside it
				g1 := g
				g1.then = []fStmt{f1, probe}
				out = append(out, append(append([]fStmt(nil), pre...), g1))
				g2 := g
				g2.then = []fStmt{f1}
				out = append(out, append(append([]fStmt(nil), pre...), g2, probe))
				for _, f2 := range seconds[:8] {
					g3 := g
					g3.then = []fStmt{f2, probe}
					out = append(out, append(append([]fStmt(nil), pre...), f1, g3))
					g4 := g
					g4.then = []fStmt{f2}
					out = append(out, append(append([]fStmt(nil), pre...), f1, g4, probe))
				}
			}
		}
		// two nested guards: if i <= j { if j <= 8 { s = a[i .. j] } }
		inner := guards[2]
		inner.then = []fStmt{firsts[12], probe}
		outer := guards[3]
		outer.then = []fStmt{inner}
		out = append(out, append(append([]fStmt(nil), pre...), outer))
	}
	// array indexing: k = a[e] under guards, after assignments and inside loops; the checker's
	// acceptance of the program is checked against 0 <= e < 8 on every path reaching the probe
	ix := func(e *fExpr) fStmt { return fStmt{kind: "assign", lhs: "k", op: "=", rhs: &fExpr{op: "index", name: "a", a: e}} }
	idxs := []*fExpr{i, j, y, fb("+", i, fk(1)), fb("-", i, fk(1)), fb("-", fk(7), y), fb("-", fk(8), i), fb("+", i, y), fb("-", i, j), fb("%", x, fk(8)), fb("%", x, fb("+", y, fk(1))),
		fb("%", i, fk(9)), fb(">>", x, fk(4)), fb(">>", x, fk(3)), fb("+", fb(">>", x, fk(5)), fk(4)), fb("%", fb("+", i, y), fk(8)), fk(7), fk(8), fb("-", j, y)}
	ipres := [][]fStmt{nil, {as("i", "=", y)}, {as("i", "=", fk(7))}, {as("i", "=", x)}, {as("i", "=", y), as("j", "=", fk(3))}, {as("j", "=", y), as("i", "=", fb("+", j, fk(1)))}, {as("i", "=", fb("+", y, y))}}
	iguards := []fStmt{
		{kind: "if", cl: i, cmp: "<", cr: fk(8)},
		{kind: "if", cl: i, cmp: "<=", cr: fk(7)},
		{kind: "if", cl: i, cmp: "<=", cr: fk(8)},
		{kind: "if", cl: fk(8), cmp: ">", cr: i},
		{kind: "if", cl: fk(7), cmp: ">=", cr: i},
		{kind: "if", cl: fk(8), cmp: ">=", cr: i},
		{kind: "if", cl: i, cmp: ">", cr: fk(0)},
		{kind: "if", cl: i, cmp: ">=", cr: j},
		{kind: "if", cl: i, cmp: "<", cr: j},
		{kind: "if", cl: j, cmp: "<=", cr: fk(8)},
		{kind: "if", cl: i, cmp: "<>", cr: fk(8)},
		{kind: "if", cl: i, cmp: "==", cr: fk(3)},
	}
	for _, pre := range ipres {
		for _, e := range idxs {
			out = append(out, append(append([]fStmt(nil), pre...), ix(e), probe))
			for gi, g := range iguards {
				g1 := g
				g1.then = []fStmt{ix(e), probe}
				out = append(out, append(append([]fStmt(nil), pre...), g1))
				g2 := g
				g2.then = []fStmt{as("i", "+=", fk(1)), ix(e), probe}
				out = append(out, append(append([]fStmt(nil), pre...), g2))
				g3 := g
				g3.then = []fStmt{as("i", "=", fk(9))}
				g3.els = []fStmt{ix(e), probe}
				out = append(out, append(append([]fStmt(nil), pre...), g3))
				// two guards nested
				if gi < 6 {
					inner := iguards[(gi+7)%len(iguards)]
					inner.then = []fStmt{ix(e), probe}
					g4 := g
					g4.then = []fStmt{inner}
					out = append(out, append(append([]fStmt(nil), pre...), g4))
				}
			}
		}
		// indexing inside loops
		for _, e := range idxs[:9] {
			w1 := fStmt{kind: "while", cl: i, cmp: "<", cr: fk(8)}
			w1.then = []fStmt{ix(e), as("i", "+=", fk(1)), probe}
			out = append(out, append(append([]fStmt(nil), pre...), w1))
			w2 := fStmt{kind: "while", cl: i, cmp: "<", cr: fk(7)}
			w2.then = []fStmt{as("i", "+=", fk(1)), ix(e), probe}
			out = append(out, append(append([]fStmt(nil), pre...), w2))
			w3 := fStmt{kind: "while", cl: i, cmp: "<", cr: fk(8), inv: [][3]interface{}{inv(j, "<=", i)}}
			w3.then = []fStmt{ix(e), as("i", "+=", fk(1)), as("j", "=", i), probe}
			out = append(out, append(append([]fStmt(nil), pre...), w3))
		}
	}
	return out
}

type factsResult struct {
	Reached bool     `json:"reached"`
	Error   string   `json:"error"`
	Facts   []string `json:"facts"`
}

func runFacts(rc *runCtx) {
	bin, err := buildProbe()
	if err != nil {
		rc.broken = append(rc.broken, err.Error())
		return
	}
	depth := 2
	if rc.thorough {
		depth = 3
	}
	progs := factsPrograms(depth, true)
	texts := make([]string, len(progs))
	for i, p := range progs {
		texts[i] = renderProgram(p)
	}
	pj := filepath.Join(scratch(), "facts-programs.json")
	b, _ := json.Marshal(texts)
	os.WriteFile(pj, b, 0o644)
	t0 := time.Now()
	out, err := exec.Command(bin, "facts", pj).Output()
	fmt.Printf("facts: the tree's checker ran on %d programs in %.1fs\n", len(progs), time.Since(t0).Seconds())
	if err != nil {
		rc.broken = append(rc.broken, "wprobe facts: "+err.Error())
		return
	}
	var results []factsResult
	if err := json.Unmarshal(out, &results); err != nil || len(results) != len(progs) {
		rc.broken = append(rc.broken, "wprobe facts output: malformed")
		return
	}
	var mu sync.Mutex
	var wg sync.WaitGroup
	sem := make(chan struct{}, rc.workers)
	reached, nfacts, proved, skipped := 0, 0, 0, 0
	nobl, oblOK := 0, 0
	falseFacts := map[string][]int{} // fact text -> program indexes
	var firstWitness = map[string]string{}
	names := []string{"args.x", "args.y", "this.f", "s.length()", "i", "j", "k"}
	smtName := map[string]string{"args.x": "cur_x", "args.y": "cur_y", "this.f": "cur_f", "s.length()": "cur_slen", "i": "cur_i", "j": "cur_j", "k": "cur_k"}
	type item struct {
		idx   int
		facts  []string
		npaths int
		obls   [][]string // per path: descriptions of the bounds obligations queried after the facts
		body   string     // per path a (push) ... (pop) fragment producing len(facts)+len(obls[path])+1 answers
	}
	var items []item
	for idx := range progs {
		if !results[idx].Reached {
			continue
		}
		reached++
		st := &spState{vals: map[string]string{"args.x": "x0", "args.y": "y0", "this.f": "f0", "i": "0", "j": "0", "s.length()": "0", "k": "0"}}
		pss, _ := spRun(progs[idx], []*spState{st})
		if len(pss) == 0 {
			continue
		}
		it := item{idx: idx}
		var sb strings.Builder
		var qfacts []string
		var qsmt []string
		for _, fact := range results[idx].Facts {
			vars := map[string]bool{}
			f2 := fact
			for _, n := range names {
				f2 = strings.ReplaceAll(f2, n, smtName[n])
			}
			q, err := cmpToSMT(f2, vars)
			if err != nil {
				skipped++
				continue
			}
			q = replaceIdent(q, "i", "cur_i")
			q = replaceIdent(q, "j", "cur_j")
			q = replaceIdent(q, "k", "cur_k")
			qfacts = append(qfacts, fact)
			qsmt = append(qsmt, q)
		}
		// one block per path that reaches the probe: every fact must hold on every such path
		for _, ps := range pss {
			sb.WriteString("(push 1)\n")
			for _, c := range ps.pc {
				sb.WriteString("(assert " + c + ")\n")
			}
			for _, n := range names {
				fmt.Fprintf(&sb, "(define-fun %s () Int %s)\n", smtName[n], ps.vals[n])
			}
			for _, q := range qsmt {
				fmt.Fprintf(&sb, "(push 1)(assert (not %s))(check-sat)(pop 1)\n", q)
			}
			var descs []string
			for _, ob := range ps.obl {
				fmt.Fprintf(&sb, "(push 1)(assert (not %s))(check-sat)(pop 1)\n", ob[1])
				descs = append(descs, ob[0])
			}
			it.obls = append(it.obls, descs)
			sb.WriteString("(check-sat)\n(pop 1)\n") // reachability of the probe on this path (vacuity)
		}
		it.facts = qfacts
		it.npaths = len(pss)
		it.body = sb.String()
		items = append(items, it)
	}
	const batch = 40
	for b0 := 0; b0 < len(items); b0 += batch {
		b1 := b0 + batch
		if b1 > len(items) {
			b1 = len(items)
		}
		chunk := items[b0:b1]
		wg.Add(1)
		sem <- struct{}{}
		go func(chunk []item) {
			defer wg.Done()
			defer func() { <-sem }()
			var sb strings.Builder
			sb.WriteString("(declare-const x0 Int)(declare-const y0 Int)(declare-const f0 Int)\n")
			sb.WriteString("(assert (and (<= 0 x0) (<= x0 100) (<= 0 y0) (<= y0 7) (<= 0 f0) (<= f0 100)))\n")
			for kf := 0; kf < 16; kf++ {
				fmt.Fprintf(&sb, "(declare-const kf%d Int)(assert (and (<= 0 kf%d) (<= kf%d 255)))\n", kf, kf, kf)
			}
			want := 0
			for _, it := range chunk {
				sb.WriteString(it.body)
				for _, o := range it.obls {
					want += len(it.facts) + len(o) + 1
				}
			}
			_, zout := sym.RunScript(sym.Primary(), sb.String(), 120*time.Second)
			var lines []string
			for _, l := range strings.Split(zout, "\n") {
				l = strings.TrimSpace(l)
				if l == "sat" || l == "unsat" || l == "unknown" {
					lines = append(lines, l)
				}
			}
			mu.Lock()
			defer mu.Unlock()
			rc.queries += want
			if len(lines) != want {
				rc.broken = append(rc.broken, fmt.Sprintf("facts batch: solver output malformed (%d answers, %d expected): %s", len(lines), want, tail(zout, 200)))
				return
			}
			k := 0
			for _, it := range chunk {
				reachable := false
				verdict := make([]string, len(it.facts)) // "", "unsat" (holds on every reachable path), "sat", "unknown"
				for pth := 0; pth < it.npaths; pth++ {
					no := len(it.obls[pth])
					ans := lines[k : k+len(it.facts)+no+1]
					k += len(it.facts) + no + 1
					if ans[len(it.facts)+no] != "sat" {
						continue // this path does not reach the probe for any input
					}
					reachable = true
					for o, d := range it.obls[pth] {
						nobl++
						switch ans[len(it.facts)+o] {
						case "unsat":
							oblOK++
						case "sat":
							key := "accepted although not " + d
							falseFacts[key] = append(falseFacts[key], it.idx)
							if _, ok := firstWitness[key]; !ok {
								firstWitness[key] = texts[it.idx]
							}
						default:
							rc.broken = append(rc.broken, fmt.Sprintf("facts program %d: solver unknown for obligation %q", it.idx, d))
						}
					}
					for f := range it.facts {
						switch {
						case ans[f] == "sat":
							verdict[f] = "sat"
						case ans[f] == "unsat" && verdict[f] == "":
							verdict[f] = "unsat"
						case ans[f] != "unsat" && verdict[f] != "sat":
							verdict[f] = "unknown"
						}
					}
				}
				if !reachable {
					continue
				}
				for f, fact := range it.facts {
					nfacts++
					switch verdict[f] {
					case "unsat":
						proved++
					case "sat":
						falseFacts[fact] = append(falseFacts[fact], it.idx)
						if _, ok := firstWitness[fact]; !ok {
							firstWitness[fact] = texts[it.idx]
						}
					default:
						rc.broken = append(rc.broken, fmt.Sprintf("facts program %d: solver unknown for fact %q", it.idx, fact))
					}
				}
			}
		}(chunk)
	}
	wg.Wait()
	rc.states += reached
	rc.obligations += nfacts + nobl
	rc.discharged += proved + oblOK
	rc.extra["bounds_obligations_checked"] = nobl
	rc.extra["fact_programs"] = len(progs)
	rc.extra["fact_programs_reaching_the_probe"] = reached
	rc.extra["facts_checked"] = nfacts
	rc.extra["facts_unparsed_skipped"] = skipped
	fmt.Printf("facts: %d programs (%d reach the probe), %d facts checked, %d proved, %d false, %d skipped; %d accepted slice/index/assignment obligations, %d hold\n", len(progs), reached, nfacts, proved, nfacts-proved, skipped, nobl, oblOK)
	if len(progs) > 0 {
		rc.samples = append(rc.samples, sample{"kind": "fact program", "program": texts[len(texts)/2], "facts": results[len(texts)/2].Facts})
	}
	// group false facts by the shape of the defect (known-finding regions)
	keys := make([]string, 0, len(falseFacts))
	for k := range falseFacts {
		keys = append(keys, k)
	}
	sort.Strings(keys)
	reported := 0
	for _, k := range keys {
		idxs := falseFacts[k]
		sort.Ints(idxs)
		if reported >= 6 {
			break
		}
		reported++
		dir := filepath.Join(evidenceDir(), "replays")
		os.MkdirAll(dir, 0o755)
		path := filepath.Join(dir, fmt.Sprintf("C02-facts-%d.json", reported))
		bb, _ := json.MarshalIndent(map[string]interface{}{"property": "C02", "kind": "facts", "false_fact": k, "program": firstWitness[k], "programs_affected": len(idxs)}, "", " ")
		os.WriteFile(path, bb, 0o644)
		line := fmt.Sprintf("VIOLATION property=C02 replay=%s", path)
		fmt.Println(line)
		fmt.Printf("  the checker holds the fact %q at the probe of %d programs although some input makes it false, e.g.:\n%s\n", k, len(idxs), indentText(firstWitness[k]))
		rc.violations = append(rc.violations, line)
		rc.replays++
		rc.samples = append(rc.samples, sample{"kind": "false fact", "fact": k, "program": firstWitness[k]})
	}
}

func indentText(s string) string {
	return "    " + strings.ReplaceAll(strings.TrimSpace(s), "\n", "\n    ")
}

func replaceIdent(s, from, to string) string {
	var sb strings.Builder
	isId := func(c byte) bool { return c == '_' || (c >= '0' && c <= '9') || (c >= 'a' && c <= 'z') || (c >= 'A' && c <= 'Z') }
	for i := 0; i < len(s); {
		if strings.HasPrefix(s[i:], from) && (i == 0 || !isId(s[i-1])) && (i+len(from) == len(s) || !isId(s[i+len(from)])) {
			sb.WriteString(to)
			i += len(from)
			continue
		}
		sb.WriteByte(s[i])
		i++
	}
	return sb.String()
}
