package main

import (
	"fmt"

	"verif/engine/gossa"
)

func init() {
	L := "lib/rac"
	cfg := func(c *gossa.Config, thorough bool) {
		c.IteCap = 64
		c.ConcCap = 300
		c.Unwind = 12
		c.MaxSteps = 20_000_000
		c.UniqDepth = 6
	}
	p := &PropSpec{ID: "C15", Level: "model_checking",
		Outside: []string{
			"files in which the byte 0x72 (first magic byte) occurs inside an index node other than at its start, or whose bytes outside the designated nodes are not zero (chunk data is never read by ChunkReader); hence index nodes at arbitrary unaligned/overlapping positions",
			"arity above 3, more than two index nodes, files longer than LEN bytes, more than STEPS NextChunk calls",
			"dictionary loading in lib/internal/racdict; Reader.Read on hostile chunk data (codec-specific)",
		},
		Assume: []string{
			"hash/crc32.ChecksumIEEE over symbolic bytes is an uninterpreted, functionally consistent function; the harness 'repairs' the checksum field of each designated node with it (natively: with the real CRC), which is sound for every clause asserted",
			"a loop that is still feasible after the unwinding bound (12 evaluations of one branch per frame) is a candidate hang: it is replayed natively under a watchdog and reported only if the real code does not return",
		},
	}
	add := func(tier string, layout, a1, a2, length, seek, steps int, a3opt ...int) {
		a3 := append(a3opt, 0)[0]
		shape := append(a3opt, 0, 0)[1]
		p.Harnesses = append(p.Harnesses, HSpec{Prop: "C15", Pkg: L, Dir: "c15", Func: "VH_C15_Walk", Tier: tier, Cfg: cfg, Hang: true,
			Label:  fmt.Sprintf("[layout=%d arity=%d/%d/%d len=%d seek=%d shape=%d]", layout, a1, a2, a3, length, seek, shape),
			Params: map[string]int{"LAYOUT": layout, "ARITY1": a1, "ARITY2": a2, "ARITY3": a3, "LEN": length, "SEEK": seek, "STEPS": steps, "SHAPE": shape, "CONCSEEK": append(a3opt, 0, 0, 0)[2]},
			Reach:  []string{"walk/chunk"}})
	}
	//           layout a1 a2 len seek steps
	add("quick", 0, 1, 0, 32, 0, 3)
	add("quick", 0, 2, 0, 48, 0, 3)
	add("quick", 1, 1, 0, 40, 1, 3)
	add("quick", 0, 1, 1, 66, 1, 3)
	add("quick", 1, 1, 1, 64, 0, 3)
	add("quick", 1, 2, 1, 80, 0, 3, 0, 2, 1)
	// (three nodes of arity 1, len 96: no result within 70 minutes at 8 workers - not registered)
	add("thorough", 0, 2, 0, 50, 1, 3)
	add("thorough", 1, 2, 1, 80, 1, 3, 0, 2, 1)
	// not registered: the fully symbolic two-level configurations with an arity >= 2 node
	// (layout 1 arity 2/1 len 82; arity 3/2, 2/2, 1/3 at len 100-120) did not finish within
	// 25 minutes on 16 cores (see DESIGN.md C15); the pointer-arithmetic family stands in for them
	register(p)
}
