package main

import "fmt"

func init() {
	var specs []LLSpec
	for _, f := range []string{"f1", "f2", "f3", "f4", "f5", "f7"} {
		pt := map[string]int{"N": 11, "SPLITS": 2}
		if f == "f2" {
			// with two split points the accumulator equality (sums of 3*t+u over 3-4 iterations, re-assembled from
			// bytes after each suspension) came back unknown on 4-20 paths: the thorough tier keeps the quick bound
			pt = map[string]int{"N": 8, "SPLITS": 1}
		}
		specs = append(specs, LLSpec{File: "c05.c", Func: "harness_split_" + f, Params: map[string]int{"N": 8, "SPLITS": 1}, ParamsT: pt, Reach: []string{"split/done"}})
	}
	specs = append(specs,
		LLSpec{File: "c05.c", Func: "harness_split_f8", Params: map[string]int{"N": 10, "SPLITS": 1}, ParamsT: map[string]int{"N": 11, "SPLITS": 2}, Reach: []string{"split/done"}},
		LLSpec{File: "c05.c", Func: "harness_split_f6", Params: map[string]int{"N": 7, "STEPS": 10}, ParamsT: map[string]int{"N": 8, "STEPS": 12}, Reach: []string{"split/done"}},
		LLSpec{File: "c05.c", Func: "harness_split_f9", Params: map[string]int{"N": 4, "STEPS": 12}, ParamsT: map[string]int{"N": 5, "STEPS": 16}, Reach: []string{"split/done"}},
		LLSpec{File: "c05.c", Func: "harness_split_transform", Params: map[string]int{"N": 9, "STEPS": 8}, ParamsT: map[string]int{"N": 10, "STEPS": 10}, Reach: []string{"split/done"}},
		LLSpec{File: "c05.c", Func: "harness_split_adler32", Tier: "thorough", Params: map[string]int{"N": 2}, Reach: []string{"split/done"}},
	)
	_ = fmt.Sprint
	register(&PropSpec{ID: "C05", Level: "model_checking",
		Outside: []string{
			"std/ decoders: the hashers' partition equality (mod-65521 / GF(2) arithmetic over >= 3 symbolic bytes) came back unknown after minutes and is not registered in the quick tier; lzw, deflate and the image decoders are outside (path length)",
			"inputs longer than N bytes, more than SPLITS source split points, destination windows above 4 bytes",
			"SIMD variants (the build uses WUFFS_CONFIG__AVOID_CPU_ARCH)",
		},
		Assume: []string{
			"the C is generated on every run by the working tree's wuffs-c from std/ and from the corpus package harness/wuffs/demo (coroutines shaped after the liveness analysis' cases), compiled by clang -O1 to LLVM IR and executed symbolically by llsym",
			"a pointer is (object, offset); reads of never-written memory yield fresh symbolic bytes; shifts >= width, division by zero, out-of-bounds and null accesses end the path as undefined behaviour",
		},
		Custom: func(rc *runCtx) { rc.runLL(specs) },
	})
}
