// vcheck decides one property of /verif/properties.jsonl by symbolic execution
// of the real code in /repo's working tree (see /verif/DESIGN.md).
//
//	vcheck <ID> [--tier quick|thorough] [--only harness] [--workers n] [-v]
//	vcheck --replay <file>
package main

import (
	"encoding/json"
	"flag"
	"fmt"
	"os"
	"path/filepath"
	"runtime"
	"sort"
	"strconv"
	"strings"
	"sync"
	"time"

	"verif/engine/gossa"
	"verif/engine/llsym"
	"verif/engine/sym"
)

var verifDir = func() string {
	if d := os.Getenv("VERIF_DIR"); d != "" {
		return d
	}
	if exe, err := os.Executable(); err == nil {
		root := filepath.Dir(filepath.Dir(exe))
		if _, err := os.Stat(filepath.Join(root, "properties.jsonl")); err == nil {
			return root
		}
	}
	return "/verif"
}()

// repoDir is the tree under verification: /repo for every registered command; VERIF_REPO points
// it at a scratch worktree when a seeded change is tried without touching /repo.
var repoDir = func() string {
	if d := os.Getenv("VERIF_REPO"); d != "" {
		return d
	}
	return "/repo"
}()

func evidenceDir() string {
	if d := os.Getenv("VERIF_EVIDENCE_DIR"); d != "" {
		return d
	}
	return filepath.Join(verifDir, "evidence")
}

// HSpec describes one gossa harness.
type HSpec struct {
	Prop    string
	Pkg     string // path below the module root, e.g. "lib/interval"
	Dir     string // directory under /verif/harness/go with the overlay sources
	Func    string
	Tier    string         // "quick", "thorough" or "" (both)
	Params  map[string]int // quick-tier parameters
	ParamsT map[string]int // thorough-tier overrides
	Reach   []string       // labels that must be reached (vacuity guard)
	Aux     bool           // names unexported identifiers: skipped as "unbound" if it no longer type-checks
	Known   string         // region id: this harness explores only a known-finding region
	Hang    bool           // step/unwind exhaustion on a feasible path is a candidate violation (termination property)
	Cfg     func(c *gossa.Config, thorough bool)
	Note    string
	NeedBig bool
	Single  bool // one-path harness: run concurrently with its siblings, one worker each
	Label   string // distinguishes several specs of the same Func
	BigW    int // width of the math/big model for this harness (0: property default)
}

type PropSpec struct {
	ID        string
	Level     string
	Harnesses []HSpec
	Outside   []string
	Assume    []string
	BigW      int
	Custom    func(rc *runCtx) // non-gossa work (wuffsym, llsym, axiom proofs)
}

var registry = map[string]*PropSpec{}

func register(p *PropSpec) { registry[p.ID] = p }

type KnownFinding struct {
	Property  string `json:"property"`
	Region    string `json:"region"`
	Status    string `json:"status"` // "known" | "fixed"
	Commit    string `json:"commit,omitempty"`
	WhatFails string `json:"what_fails"`
	Witness   string `json:"witness,omitempty"`
}

func loadKnown() []KnownFinding {
	b, err := os.ReadFile(filepath.Join(verifDir, "known_findings.json"))
	if err != nil {
		return nil
	}
	var k struct {
		Findings []KnownFinding `json:"findings"`
	}
	if err := json.Unmarshal(b, &k); err != nil {
		fmt.Fprintln(os.Stderr, "known_findings.json:", err)
		os.Exit(2)
	}
	return k.Findings
}

type sample map[string]interface{}

type runCtx struct {
	prop       *PropSpec
	tier       string
	thorough   bool
	workers    int
	verbose    bool
	only       string
	seed       int
	t0         time.Time
	known      []KnownFinding
	knownAct   map[string]bool
	violations []string // VIOLATION lines
	knownSeen  []string
	broken     []string // engine errors / inconclusive
	states     int
	queries    int
	replays    int
	samples    []sample
	funcs      map[string]int
	bounds     map[string]interface{}
	unbound    []string
	unwinds    []string
	harnessRes []sample
	obligations, discharged int
	extra      map[string]interface{}
	crossChecked int
	deadline   time.Time
	mu         sync.Mutex
	witnessed  map[string]bool
}

func main() {
	tier := flag.String("tier", "", "quick|thorough")
	replay := flag.String("replay", "", "replay file")
	only := flag.String("only", "", "run only harnesses whose name contains this")
	workers := flag.Int("workers", runtime.NumCPU(), "parallel paths")
	verbose := flag.Bool("v", false, "verbose")
	budget := flag.Duration("budget", 0, "wall-clock budget for exploration (0 = tier default)")
	flag.Parse()
	if *replay != "" {
		os.Exit(replayFile(*replay))
	}
	if flag.NArg() < 1 {
		fmt.Fprintln(os.Stderr, "usage: vcheck <ID> [--tier quick|thorough]")
		os.Exit(2)
	}
	id := flag.Arg(0)
	// flags may follow the id
	if flag.NArg() > 1 {
		fs := flag.NewFlagSet("post", flag.ExitOnError)
		tier2 := fs.String("tier", *tier, "")
		only2 := fs.String("only", *only, "")
		workers2 := fs.Int("workers", *workers, "")
		verbose2 := fs.Bool("v", *verbose, "")
		budget2 := fs.Duration("budget", *budget, "")
		fs.Parse(flag.Args()[1:])
		tier, only, workers, verbose, budget = tier2, only2, workers2, verbose2, budget2
	}
	if *tier == "" {
		*tier = os.Getenv("VERIF_TIER")
	}
	if *tier == "" {
		*tier = "quick"
	}
	p := registry[id]
	if p == nil {
		fmt.Fprintln(os.Stderr, "unknown or unclaimed property", id)
		os.Exit(2)
	}
	seed, _ := strconv.Atoi(os.Getenv("VERIF_SEED"))
	rc := &runCtx{prop: p, tier: *tier, thorough: *tier == "thorough", workers: *workers, verbose: *verbose, only: *only, seed: seed,
		t0: time.Now(), funcs: map[string]int{}, bounds: map[string]interface{}{}, knownAct: map[string]bool{}, extra: map[string]interface{}{}, witnessed: map[string]bool{}}
	if *budget == 0 {
		if rc.thorough {
			*budget = 90 * time.Minute
		} else {
			*budget = 20 * time.Minute
		}
	}
	rc.deadline = rc.t0.Add(*budget)
	gossa.RepoPrefix = repoDir + "/"
	rc.known = loadKnown()
	for _, k := range rc.known {
		if k.Status == "known" {
			rc.knownAct[k.Region] = true
		}
	}
	if p.BigW != 0 {
		gossa.BigW = p.BigW
	}
	rc.runGossa()
	if p.Custom != nil {
		p.Custom(rc)
	}
	if os.Getenv("VERIF_FORKS") != "" {
		fmt.Fprintf(os.Stderr, "check-time=%.1fs one-shots=%d solver-time=%.1fs\n", float64(gossa.CheckNanos)/1e9, gossa.OneShots, float64(sym.Global.NanosInSolver)/1e9)
		type kv struct {
			k string
			v int64
		}
		var l []kv
		gossa.ForkSites.Range(func(k, v interface{}) bool { l = append(l, kv{k.(string), *v.(*int64)}); return true })
		llsym.ForkSites.Range(func(k, v interface{}) bool { l = append(l, kv{k.(string), *v.(*int64)}); return true })
		sort.Slice(l, func(i, j int) bool { return l[i].v > l[j].v })
		for i, e := range l {
			if i > 40 {
				break
			}
			fmt.Fprintf(os.Stderr, "FORKS %6d %s\n", e.v, e.k)
		}
	}
	code := rc.finish()
	cleanupScratch()
	os.Exit(code)
}

func (rc *runCtx) logf(format string, a ...interface{}) {
	if rc.verbose {
		fmt.Fprintf(os.Stderr, format+"\n", a...)
	}
}

func readOverlayDir(dir, pkgRel string, withAux bool, auxFiles map[string]bool) (map[string][]byte, string, error) {
	ov := map[string][]byte{}
	ents, err := os.ReadDir(dir)
	if err != nil {
		return nil, "", err
	}
	pkgName := ""
	for _, en := range ents {
		if !strings.HasSuffix(en.Name(), ".go") {
			continue
		}
		if auxFiles[en.Name()] && !withAux {
			continue
		}
		b, err := os.ReadFile(filepath.Join(dir, en.Name()))
		if err != nil {
			return nil, "", err
		}
		if pkgName == "" && !strings.HasSuffix(en.Name(), "_shared.go") {
			for _, line := range strings.Split(string(b), "\n") {
				if strings.HasPrefix(line, "package ") {
					pkgName = strings.TrimSpace(strings.TrimPrefix(line, "package "))
					break
				}
			}
		}
		ov[filepath.Join(repoDir, pkgRel, en.Name())] = b
	}
	// files named *_shared.go serve several target packages: their package clause follows the directory's
	for k, b := range ov {
		if strings.HasSuffix(k, "_shared.go") && pkgName != "" {
			lines := strings.SplitN(string(b), "\n", -1)
			for i, line := range lines {
				if strings.HasPrefix(line, "package ") {
					lines[i] = "package " + pkgName
					break
				}
			}
			ov[k] = []byte(strings.Join(lines, "\n"))
		}
	}
	return ov, pkgName, nil
}

func preludeFiles(pkgRel, pkgName string, native bool, needBig bool) map[string][]byte {
	ov := map[string][]byte{}
	kind := "sym"
	if native {
		kind = "native"
	}
	b, err := os.ReadFile(filepath.Join(verifDir, "harness/go/prelude_"+kind+".go.txt"))
	if err != nil {
		panic(err)
	}
	ov[filepath.Join(repoDir, pkgRel, "zz_verif_prelude.go")] = []byte(strings.Replace(string(b), "PKGNAME", pkgName, 1))
	if needBig {
		b, err := os.ReadFile(filepath.Join(verifDir, "harness/go/prelude_big_"+kind+".go.txt"))
		if err != nil {
			panic(err)
		}
		ov[filepath.Join(repoDir, pkgRel, "zz_verif_prelude_big.go")] = []byte(strings.Replace(string(b), "PKGNAME", pkgName, 1))
	}
	return ov
}

type group struct {
	dropped  []string // auxiliary harness files left out because they no longer type-check
	pkg, dir string
	specs    []HSpec
	needBig  bool
	bigW     int
}

func (rc *runCtx) selected() []*group {
	var gs []*group
	idx := map[string]*group{}
	for _, h := range rc.prop.Harnesses {
		if h.Tier != "" && h.Tier != rc.tier {
			continue
		}
		if rc.only != "" && !strings.Contains(h.Func+h.Label, rc.only) {
			continue
		}
		key := fmt.Sprintf("%s|%s|%d", h.Pkg, h.Dir, h.BigW)
		g := idx[key]
		if g == nil {
			g = &group{pkg: h.Pkg, dir: h.Dir, bigW: h.BigW}
			idx[key] = g
			gs = append(gs, g)
		}
		g.specs = append(g.specs, h)
		g.needBig = g.needBig || h.NeedBig
	}
	return gs
}

func (rc *runCtx) params(h HSpec) map[string]int {
	m := map[string]int{}
	for k, v := range h.Params {
		m[k] = v
	}
	if rc.thorough {
		for k, v := range h.ParamsT {
			m[k] = v
		}
	}
	// VERIF_SET=K=10,S=4 overrides parameters (experiments only; never used by registered commands)
	if o := os.Getenv("VERIF_SET"); o != "" {
		for _, kv := range strings.Split(o, ",") {
			if i := strings.Index(kv, "="); i > 0 {
				if v, err := strconv.Atoi(kv[i+1:]); err == nil {
					m[kv[:i]] = v
				}
			}
		}
	}
	return m
}

func (rc *runCtx) runGossa() {
	for _, g := range rc.selected() {
		dir := filepath.Join(verifDir, "harness/go", g.dir)
		ov, pkgName, err := readOverlayDir(dir, g.pkg, true, nil)
		if err != nil {
			rc.broken = append(rc.broken, "harness dir: "+err.Error())
			continue
		}
		for k, v := range preludeFiles(g.pkg, pkgName, false, g.needBig) {
			ov[k] = v
		}
		tl := time.Now()
		gossa.BigW = 64
		if rc.prop.BigW != 0 {
			gossa.BigW = rc.prop.BigW
		}
		if g.bigW != 0 {
			gossa.BigW = g.bigW
		}
		ld, err := gossa.Load(repoDir, "./"+g.pkg, ov)
		if err != nil {
			// auxiliary harness files (zz_*_aux*.go name unexported identifiers) that no longer type-check
			// against the tree are dropped, the rest of the group still runs
			dropped := map[string]bool{}
			for k := range ov {
				base := filepath.Base(k)
				if strings.Contains(base, "_aux") && strings.Contains(err.Error(), base) {
					dropped[base] = true
					delete(ov, k)
				}
			}
			if len(dropped) > 0 {
				if ld2, err2 := gossa.Load(repoDir, "./"+g.pkg, ov); err2 == nil {
					var keep []HSpec
					for _, h := range g.specs {
						if ld2.Pkg.Func(h.Func) == nil && h.Aux {
							rc.unbound = append(rc.unbound, h.Func+h.Label+": its file no longer type-checks against the tree: "+tail(err.Error(), 300))
							fmt.Printf("UNBOUND auxiliary harness %s (no longer type-checks against the tree): skipped\n", h.Func+h.Label)
							continue
						}
						keep = append(keep, h)
					}
					g.specs = keep
					for b := range dropped {
						g.dropped = append(g.dropped, b)
					}
					ld, err = ld2, nil
				}
			}
		}
		if err != nil {
			allAux := true
			for _, h := range g.specs {
				allAux = allAux && h.Aux
			}
			if allAux {
				for _, h := range g.specs {
					rc.unbound = append(rc.unbound, h.Func+": "+err.Error())
				}
				fmt.Printf("UNBOUND auxiliary harness group %s (no longer type-checks against the tree): skipped\n", g.dir)
				continue
			}
			rc.broken = append(rc.broken, "load "+g.pkg+": "+err.Error())
			continue
		}
		ld.Sh.KnownActive = rc.knownAct
		ld.Sh.KeepScript = rc.thorough && os.Getenv("VERIF_NO_CROSS") == ""
		if err := ld.RunInits(); err != nil {
			rc.broken = append(rc.broken, "init "+g.pkg+": "+err.Error())
			continue
		}
		rc.logf("loaded %s in %.1fs", g.pkg, time.Since(tl).Seconds())
		var singles []HSpec
		for _, h := range g.specs {
			if h.Single {
				singles = append(singles, h)
				continue
			}
			rc.runOne(ld, g, pkgName, h, rc.workers)
		}
		if len(singles) > 0 {
			sem := make(chan struct{}, rc.workers)
			var wg sync.WaitGroup
			for _, h := range singles {
				wg.Add(1)
				sem <- struct{}{}
				go func(h HSpec) {
					defer wg.Done()
					defer func() { <-sem }()
					rc.runOne(ld, g, pkgName, h, 1)
				}(h)
			}
			wg.Wait()
		}
	}
}

func (rc *runCtx) runOne(ld *gossa.Loaded, g *group, pkgName string, h HSpec, workers int) {
	if h.Known != "" && !rc.knownAct[h.Known] {
		// region is not (or no longer) listed as known: the main harness covers it without exclusion
		return
	}
	cfg := gossa.DefaultConfig()
	if rc.thorough {
		cfg.CheckTimeout = 300000
	}
	if h.Cfg != nil {
		h.Cfg(&cfg, rc.thorough)
	}
	params := rc.params(h)
	hr := ld.RunHarness(h.Func, cfg, params, workers, rc.deadline)
	rc.mu.Lock()
	defer rc.mu.Unlock()
	rc.states += hr.Paths
	rc.queries += hr.Queries
	for f, n := range hr.Funcs {
		rc.funcs[f] = n
	}
	bkey := h.Func + h.Label
	rc.bounds[bkey] = map[string]interface{}{"params": params, "unwind": cfg.Unwind, "max_steps": cfg.MaxSteps, "ite_cap": cfg.IteCap, "conc_cap": cfg.ConcCap, "big_int_model_bits": gossa.BigW}
	nd, nv, nu := 0, 0, 0
	for _, vs := range hr.Checks {
		nd += vs["discharged"]
		nv += vs["violated"]
		nu += vs["unknown"]
	}
	rc.obligations += nd + nv + nu
	rc.discharged += nd
	summary := sample{"harness": h.Func + h.Label, "paths": hr.Paths, "ends": hr.Ends, "checks_discharged": nd, "checks_violated": nv, "checks_unknown": nu,
		"queries": hr.Queries, "steps": hr.Steps, "wall_s": round2(hr.Wall), "reached": hr.Reached, "params": params}
	rc.harnessRes = append(rc.harnessRes, summary)
	fmt.Printf("harness %-28s paths=%d ends=%v checks: %d discharged, %d violated, %d unknown; queries=%d steps=%d %.1fs\n",
		h.Func+h.Label, hr.Paths, hr.Ends, nd, nv, nu, hr.Queries, hr.Steps, hr.Wall)
	for _, msg := range hr.Internal {
		rc.broken = append(rc.broken, h.Func+": "+msg)
	}
	// incomplete paths
	hangs := 0
	for i, inc := range hr.Incomplete {
		if h.Hang && (strings.HasPrefix(inc, "steps:") || strings.HasPrefix(inc, "unwind:")) {
			if strings.Contains(inc, "wall-clock deadline") {
				rc.broken = append(rc.broken, h.Func+": "+inc)
				continue
			}
			// termination is the property: candidate violation, replay under a watchdog
			// (each replay waits for the watchdog, so only the first two per harness are replayed)
			hangs++
			if hangs > 2 {
				continue
			}
			rc.candidate(g, pkgName, h, params, gossa.Violation{Label: "non-termination: " + inc, Kind: "hang", Model: hr.IncompleteM[i]})
			continue
		}
		rc.unwinds = append(rc.unwinds, h.Func+": "+inc)
		rc.broken = append(rc.broken, h.Func+": incomplete path at the registered bound: "+inc)
	}
	for _, u := range hr.Unknowns {
		rc.broken = append(rc.broken, h.Func+": solver returned unknown for check "+u)
	}
	// vacuity guard
	for _, r := range h.Reach {
		if hr.Reached[r] == 0 && len(hr.Violations) == 0 {
			rc.broken = append(rc.broken, fmt.Sprintf("%s: vacuity guard: label %q never reached", h.Func, r))
		}
	}
	// replay one reachability witness natively (translator validation), once per harness function
	if len(h.Reach) > 0 && len(hr.Violations) == 0 && !rc.witnessed[h.Func] {
		rc.witnessed[h.Func] = true
		r := h.Reach[len(h.Reach)-1]
		if m, ok := hr.ReachModels[r]; ok {
			out, _ := rc.nativeReplay(g, pkgName, h, params, m, 60*time.Second)
			if strings.Contains(out, "VERIF-REACH "+r) && !strings.Contains(out, "VERIF-CHECK-FAILED") && !strings.Contains(out, "VERIF-MISMATCH") {
				rc.replays++
				rc.samples = append(rc.samples, sample{"kind": "reachability witness replayed natively", "harness": h.Func, "label": r, "model": compactModel(m)})
			} else {
				rc.broken = append(rc.broken, fmt.Sprintf("%s: native replay of the reachability witness for %q disagrees with the encoding:\n%s", h.Func, r, tail(out, 1500)))
			}
		}
	}
	for _, v := range hr.Violations {
		rc.candidate(g, pkgName, h, params, v)
	}
	// cross-solver re-discharge (thorough)
	if ld.Sh.KeepScript {
		for i, sc := range hr.Scripts {
			if i >= 12 {
				break
			}
			for _, k := range sym.Others() {
				r, out := sym.RunScript(k, sc, 120*time.Second)
				rc.crossChecked++
				if r == sym.Sat {
					rc.broken = append(rc.broken, fmt.Sprintf("%s: cross-solver disagreement: %s finds a model for an assertion the primary solver discharged\n%s", h.Func, k, tail(out, 300)))
				}
			}
		}
	}
	if len(rc.samples) < 40 {
		for label, vs := range hr.Checks {
			rc.samples = append(rc.samples, sample{"kind": "assertion", "harness": h.Func, "label": label, "verdicts": vs})
			if len(rc.samples) >= 40 {
				break
			}
		}
	}
}

func compactModel(m []gossa.NondetVal) map[string]uint64 {
	out := map[string]uint64{}
	for i, v := range m {
		if i >= 24 {
			break
		}
		out[v.Name] = v.Val
	}
	return out
}

func round2(f float64) float64 { return float64(int(f*100)) / 100 }

func tail(s string, n int) string {
	if len(s) > n {
		return s[len(s)-n:]
	}
	return s
}

// candidate replays a solver counterexample natively and reports it.
func (rc *runCtx) candidate(g *group, pkgName string, h HSpec, params map[string]int, v gossa.Violation) {
	to := 60 * time.Second
	if v.Kind == "hang" {
		to = 20 * time.Second
	}
	out, path := rc.nativeReplayKeep(g, pkgName, h, params, v.Model, to, v)
	confirmed := false
	switch v.Kind {
	case "check":
		confirmed = strings.Contains(out, "VERIF-CHECK-FAILED "+v.Label)
	case "panic":
		confirmed = strings.Contains(out, "panic:") && !strings.Contains(out, "test timed out")
	case "hang":
		confirmed = strings.Contains(out, "test timed out") || strings.Contains(out, "VERIF-WATCHDOG")
	}
	// after the recorded model is exhausted the native run continues with zeros; only what
	// happens before that point counts
	cut := len(out)
	for _, marker := range []string{"VERIF-EXTRA-NONDET", "VERIF-ASSUME-FAILED", "VERIF-MISMATCH"} {
		if i := strings.Index(out, marker); i >= 0 && i < cut {
			cut = i
		}
	}
	if v.Kind == "check" {
		confirmed = strings.Contains(out[:cut], "VERIF-CHECK-FAILED "+v.Label)
	} else if strings.Contains(out, "VERIF-MISMATCH") || strings.Contains(out[:cut+1-1], "VERIF-ASSUME-FAILED") && cut < len(out) && strings.HasPrefix(out[cut:], "VERIF-ASSUME-FAILED") {
		confirmed = false
	}
	if !confirmed {
		rc.broken = append(rc.broken, fmt.Sprintf("ENGINE-MISMATCH %s: counterexample for %q (%s) did not reproduce natively; model %v; stack %s\n%s", h.Func, v.Label, v.Kind, compactModel(v.Model), v.Stack, tail(out, 2000)))
		return
	}
	rc.replays++
	what := fmt.Sprintf("%s: %s", h.Func, v.Label)
	if h.Known != "" {
		for _, k := range rc.known {
			if k.Region == h.Known && k.Status == "known" {
				line := fmt.Sprintf("KNOWN-FINDING: property=%s %s [region %s; %s]", rc.prop.ID, k.WhatFails, k.Region, what)
				rc.knownSeen = append(rc.knownSeen, line)
				fmt.Println(line)
				rc.samples = append(rc.samples, sample{"kind": "known finding reproduced natively", "harness": h.Func, "label": v.Label, "model": compactModel(v.Model), "region": h.Known})
				return
			}
		}
	}
	line := fmt.Sprintf("VIOLATION property=%s replay=%s", rc.prop.ID, path)
	fmt.Println(line)
	fmt.Printf("  harness=%s kind=%s label=%q\n  stack=%s\n  model=%v\n", h.Func, v.Kind, v.Label, v.Stack, compactModel(v.Model))
	rc.violations = append(rc.violations, line)
	rc.samples = append(rc.samples, sample{"kind": "violation replayed natively", "harness": h.Func, "label": v.Label, "model": compactModel(v.Model), "stack": v.Stack})
}

func (rc *runCtx) finish() int {
	wall := time.Since(rc.t0).Seconds()
	p := rc.prop
	level := p.Level
	if level == "" {
		level = "model_checking"
	}
	if len(rc.samples) == 0 {
		rc.samples = append(rc.samples, sample{"kind": "none", "note": "no harness ran"})
	}
	fnames := make([]string, 0, len(rc.funcs))
	for f := range rc.funcs {
		if strings.Contains(f, "github.com/google/wuffs") && !strings.Contains(f, ".vh") && !strings.Contains(f, ".VH_") {
			fnames = append(fnames, fmt.Sprintf("%s (%d SSA instrs)", f, rc.funcs[f]))
		}
	}
	sort.Strings(fnames)
	cov := map[string]interface{}{
		"states":                        rc.states,
		"transitions":                   rc.queries,
		"traces_validated_against_impl": rc.replays,
		"samples":                       rc.samples,
		"obligations":                   rc.obligations,
		"discharged":                    rc.discharged,
		"functions_encoded":             fnames,
		"bounds":                        rc.bounds,
		"harnesses":                     rc.harnessRes,
		"queries": map[string]int64{"sat": sym.Global.Sat, "unsat": sym.Global.Unsat, "unknown": sym.Global.Unknown, "error": sym.Global.Errors},
		"solver_time_s":      round2(float64(sym.Global.NanosInSolver) / 1e9),
		"solvers":            []string{sym.Primary() + " (deciding; z3-new = z3 5.1.0, z3 = 4.8.12)", strings.Join(sym.Others(), ", ") + " (re-discharge of assertions, thorough tier)"},
		"cross_solver_runs":  rc.crossChecked,
		"unwind_records":     rc.unwinds,
		"unbound_harnesses":  rc.unbound,
		"outside":            p.Outside,
		"known_findings_seen": rc.knownSeen,
		"engine_errors":      rc.broken,
		"explanation":        "states = symbolic paths completed; transitions = solver queries issued; every path forks only where the code compares symbolic data, and each assertion is one query over all inputs of the path",
	}
	for k, v := range rc.extra {
		cov[k] = v
	}
	if level == "proof" {
		cov["checker_cmd"] = "z3-new -in -smt2 (queries generated by /verif/bin/vcheck " + p.ID + ")"
		cov["trusted_base"] = []string{"z3 5.1.0 (z3-new)", "gossa SSA-to-SMT encoder", "math/big bit-vector model"}
	}
	if level == "translation_validation" {
		cov["programs"] = rc.extra["programs"]
		cov["disagreements_checked"] = rc.extra["disagreements_checked"]
	}
	ev := map[string]interface{}{
		"property_id": p.ID,
		"tier":        rc.tier,
		"seed":        rc.seed,
		"level":       level,
		"coverage":    cov,
		"assumptions": p.Assume,
		"wall_s":      round2(wall),
		"violations":  len(rc.violations),
	}
	os.MkdirAll(evidenceDir(), 0o755)
	b, _ := json.MarshalIndent(ev, "", " ")
	os.WriteFile(filepath.Join(evidenceDir(), p.ID+".json"), b, 0o644)
	fmt.Printf("property %s tier %s: paths=%d queries=%d replays=%d violations=%d known=%d broken=%d wall=%.1fs\n",
		p.ID, rc.tier, rc.states, rc.queries, rc.replays, len(rc.violations), len(rc.knownSeen), len(rc.broken), wall)
	if len(rc.violations) > 0 {
		return 1
	}
	if len(rc.broken) > 0 {
		for _, b := range rc.broken {
			fmt.Println("ENGINE-ERROR:", b)
		}
		return 2
	}
	return 0
}
