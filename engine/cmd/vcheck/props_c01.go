package main

import (
	"fmt"

	"verif/engine/gossa"
)

var c01OpNames = []string{"+", "-", "*", "/", "%", "<<", "~mod<<", ">>", "&", "|", "^", "~mod+", "~mod-", "~mod*", "~sat+", "~sat-"}

func init() {
	cfg := func(c *gossa.Config, thorough bool) {
		c.IteCap = 64
		c.ConcCap = 300
		c.Unwind = 200
		pfx := "github.com/google/wuffs/lib/interval."
		c.Merge = map[string]bool{pfx + "bitFillRight": true, "(" + pfx + "IntRange).andMax": true, "(" + pfx + "IntRange).orMax": true}
	}
	p := &PropSpec{ID: "C01", Level: "model_checking", BigW: 64,
		Outside: []string{
			"layer C of the design (bounded model checking of whole accepted programs against an executable Wuffs semantics): the Wuffs-AST symbolic interpreter was not built; what is checked is the checker's own arithmetic, not fact propagation through statements",
			"operand bounds at or above 2^K; base.u64 (its type bounds do not fit the 64-bit signed model of math/big) and signed types",
			"unary operators, `as` conversions, built-in method special cases (low_bits, high_bits, min, max, ...), slice/array index proofs; facts.refine is checked for one fact at a time",
		},
		Assume: []string{
			"math/big.Int is modelled as a signed 64-bit bit-vector; operations whose exact result might not fit raise an obligation and the path is reported incomplete",
			"the reference meaning of each operator on unsigned w-bit operands is vhRef in harness/go/c01 (ideal result for + - * << / % >> & | ^; mod 2^w for ~mod ops; clamped for ~sat ops)",
		},
	}
	for ty := 0; ty < 3; ty++ {
		for op := range c01OpNames {
			k := 8
			tier := ""
			if ty > 0 {
				k = 10
				if op%4 != ty%4 {
					tier = "thorough"
				}
			}
			if c01OpNames[op] == "*" || c01OpNames[op] == "~mod*" {
				k = 6
			}
			p.Harnesses = append(p.Harnesses, HSpec{Prop: "C01", Pkg: "lang/check", Dir: "c01", Func: "VH_C01_BinOp", NeedBig: true, Aux: true, Cfg: cfg, Tier: tier,
				Label: fmt.Sprintf("[%s u%d]", c01OpNames[op], 8<<uint(ty)), Params: map[string]int{"OP": op, "TYPE": ty, "K": k}, Reach: []string{"binop/done"}})
		}
	}
	cmpNames := []string{"<>", "<", "<=", "==", ">=", ">"}
	for op, name := range cmpNames {
		for side := 0; side < 2; side++ {
			p.Harnesses = append(p.Harnesses, HSpec{Prop: "C01", Pkg: "lang/check", Dir: "c01", Func: "VH_C01_Refine", NeedBig: true, Aux: true, Cfg: cfg,
				Label: fmt.Sprintf("[%s side=%d]", name, side), Params: map[string]int{"OP": op, "SIDE": side, "K": 10}, ParamsT: map[string]int{"K": 20}, Reach: []string{"refine/done"}})
		}
	}
	register(p)
}
