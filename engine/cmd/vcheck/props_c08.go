package main

func init() {
	specs := []LLSpec{
		{File: "c08.c", Func: "harness_protocol", Params: map[string]int{"STEPS": 3}, ParamsT: map[string]int{"STEPS": 4}, Reach: []string{"protocol/done", "protocol/call"}},
	}
	register(&PropSpec{ID: "C08", Level: "model_checking",
		Outside: []string{
			"objects of std/ (the corpus object of harness/wuffs/demo exercises the same generated prologue/epilogue templates: magic, active_coroutine, argument checks, suspend/resume); image decoders' 'bad call sequence' rule",
			"scripts longer than STEPS calls; buffers longer than 6 bytes",
		},
		Assume: []string{
			"the object starts as arbitrary memory whose magic field is neither WUFFS_BASE__MAGIC nor WUFFS_BASE__DISABLED",
			"expected statuses come from the protocol model in harness/c/c08.c (raw -> 'initialize not called'; disabled -> 'disabled by previous error'; NULL buffer -> 'bad argument' and disabled; another coroutine while one is suspended -> 'interleaved coroutine calls' and disabled; an error status disables; a suspension records the active coroutine)",
		},
		Custom: func(rc *runCtx) { rc.runLL(specs) },
	})
}
