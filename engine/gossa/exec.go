package gossa

import (
	"fmt"
	"os"
	"sync/atomic"
	"time"
	"go/constant"
	"go/token"
	"go/types"
	"strings"
	"sync"

	"verif/engine/sym"

	"golang.org/x/tools/go/ssa"
)

type EndKind int

const (
	EndReturn EndKind = iota
	EndInfeasible
	EndPanic       // Go run-time panic in the code under test
	EndUnwind      // unwinding bound hit on a feasible path
	EndSteps       // step budget hit on a feasible path
	EndUnsupported // construct outside the encoder
	EndConcretize  // too many values at a concretisation site
	EndStopped     // stopped after a failed check
)

func (k EndKind) String() string {
	return [...]string{"return", "infeasible", "panic", "unwind", "steps", "unsupported", "concretize", "stopped"}[k]
}

type pathEnd struct {
	Kind EndKind
	Msg  string
}

type goPanic struct {
	Kind  string // "nil dereference", "index out of range", "explicit", ...
	Val   Value
	Stack string
}

type Decision struct {
	Taken  bool
	Forced bool
	HasVal bool
	Val    uint64
	Sub    [][]Decision // merged call: complete local traces of its feasible paths
	IsSub  bool
	Uniq   bool // uniqueness probe: Taken = the path condition implies the single value Val
}

// Config is the per-harness bound set.
type Config struct {
	Unwind        int   // max symbolic evaluations of one If per frame
	MaxSteps      int64 // interpreted instructions per path
	MaxDepth      int   // call depth
	FeasTimeoutMs int
	CheckTimeout  int
	IteCap        int // arrays up to this length use ite chains for symbolic indices
	ConcCap       int // max distinct values at a concretisation site
	StopOnFail    bool
	Replace       map[string]string // function (full name) -> harness function (name in the target package) executed instead
	Merge         map[string]bool // functions executed in merge mode (all callee paths folded into one state)
	UniqDepth     int             // >0: terms at least this deep that reach an index, a shift count or a scalar variable are replaced by their value when the path condition implies a single value
}

func DefaultConfig() Config {
	return Config{Unwind: 64, MaxSteps: 50_000_000, MaxDepth: 200, FeasTimeoutMs: 5000, CheckTimeout: 60000, IteCap: 64, ConcCap: 64}
}

type CheckRec struct {
	Label   string
	Verdict string // "discharged", "violated", "unknown"
	Model   []NondetVal
	Stack   string
	Script  string // standalone script for cross-solver runs (only kept on request)
}

type NondetVal struct {
	Name string `json:"name"`
	W    int    `json:"w"`
	Val  uint64 `json:"val"`
}

type PathResult struct {
	End       pathEnd
	Panic     *goPanic
	Checks    []CheckRec
	Reached   []string
	Known     []string // known-finding regions hit
	Steps     int64
	Decisions int
	Model     []NondetVal // model at path end for panic/unwind/steps ends and reach witnesses
	Stack     string
	Queries   int
}

type fnInfo struct {
	slots map[ssa.Value]int
	n     int
}

// Shared holds what all workers share.
type Shared struct {
	Prog       *ssa.Program
	Cfg        Config
	fnInfos    sync.Map
	Intrinsics map[string]Intrinsic
	KeepScript bool
	RunInit    map[*ssa.Package]bool // packages whose init is executed
	initMu     sync.Mutex
	// template globals after init (per package), cloned lazily per path
	tmplGlobals map[*ssa.Global]*Obj
	constStr    sync.Map
	KnownActive map[string]bool
	InitPkgs    map[string]bool // foreign packages whose init may be executed
	Module      string
	Params      map[string]int
	Deadline    time.Time
	mergeMu     sync.Mutex
	MergeStats  map[string][2]int // function -> {merged calls, outcomes folded}
	Target      *ssa.Package      // package under test (holds the harness functions)
}

func (sh *Shared) noteMerge(fn string, n int) {
	sh.mergeMu.Lock()
	if sh.MergeStats == nil {
		sh.MergeStats = map[string][2]int{}
	}
	st := sh.MergeStats[fn]
	sh.MergeStats[fn] = [2]int{st[0] + 1, st[1] + n}
	sh.mergeMu.Unlock()
}

type Intrinsic func(e *Exec, fr *frame, args []Value, site ssa.Instruction) Value

type frame struct {
	fn        *ssa.Function
	regs      []Value
	info      *fnInfo
	block     *ssa.BasicBlock
	prev      *ssa.BasicBlock
	defers    []func()
	ifCount   map[ssa.Instruction]int
	result    Value
	panicking *goPanic
	recovered bool
	caller    *frame
	site      ssa.Instruction
}

type Exec struct {
	wrapLabel   string // non-empty between vWrapBegin and vWrapEnd: unsigned + and * must not wrap
	wrapBounded int    // ... of which this many were excluded by term bounds alone
	wrapWide    map[string]uint64
	Sh          *Shared
	S           *sym.Solver
	pc          []*sym.Term
	flushed     int
	prefix      []Decision
	pos         int
	trace       []Decision
	alts        []Work
	mdl         map[string]uint64
	mdlOK       bool
	mdlMemo     map[*sym.Term]uint64
	scope       *mergeScope
	epoch       int
	mergeBase   int
	mergedFresh map[*Obj]bool
	nextObj     int
	globals     map[*ssa.Global]*Obj
	cloneMemo   map[*Obj]*Obj
	nondets     []*sym.Term
	nondetCount map[string]int
	steps       int64
	depth       int
	cur         *frame
	res         *PathResult
	opaqueCtr   int
	inInit      bool
	foreign     map[*ssa.Global]*Obj
	ufApps      map[string][]ufApp
	uniqNo      map[*sym.Term]bool
	poison      bool // big.Int model: the value being produced is outside the model (init only)
}

func (e *Exec) end(kind EndKind, format string, args ...interface{}) {
	panic(pathEnd{kind, fmt.Sprintf(format, args...)})
}

func (e *Exec) unsupported(format string, args ...interface{}) {
	panic(pathEnd{EndUnsupported, fmt.Sprintf(format, args...) + " @ " + e.stackString()})
}

func (e *Exec) goPanic(kind string, val Value) {
	panic(&goPanic{Kind: kind, Val: val, Stack: e.stackString()})
}

func (e *Exec) stackString() string {
	var sb strings.Builder
	n := 0
	for fr := e.cur; fr != nil && n < 12; fr = fr.caller {
		pos := token.NoPos
		if fr.site != nil {
			pos = fr.site.Pos()
		}
		_ = pos
		sb.WriteString(fr.fn.String())
		if fr.caller != nil && fr.site != nil {
			p := e.Sh.Prog.Fset.Position(fr.site.Pos())
			if p.IsValid() {
				fmt.Fprintf(&sb, "(called at %s:%d)", shortFile(p.Filename), p.Line)
			}
		}
		sb.WriteString(" <- ")
		n++
	}
	return sb.String()
}

func shortFile(f string) string {
	if RepoPrefix != "" && strings.HasPrefix(f, RepoPrefix) {
		return f[len(RepoPrefix):]
	}
	if i := strings.Index(f, "/repo/"); i >= 0 {
		return f[i+6:]
	}
	return f
}

// ---- path condition and branching ----

// Work is one queued path: a decision prefix and (optionally) a model known
// to satisfy it, used to skip feasibility queries.
type Work struct {
	Prefix []Decision
	Model  map[string]uint64
}

func (e *Exec) flush() {
	if e.S.Epoch != e.epoch {
		e.epoch = e.S.Epoch
		e.flushed = 0
	}
	for ; e.flushed < len(e.pc); e.flushed++ {
		e.S.Assert(e.pc[e.flushed])
	}
}

func (e *Exec) setModel(m map[string]uint64) {
	e.mdl = m
	e.mdlOK = m != nil
	e.mdlMemo = map[*sym.Term]uint64{}
}

// evalModel evaluates c under the cached model (valid for the current pc).
func (e *Exec) evalModel(c *sym.Term) (bool, bool) {
	if !e.mdlOK {
		return false, false
	}
	v, ok := sym.Eval(c, e.mdl, e.mdlMemo)
	if !ok {
		return false, false
	}
	return v == 1, true
}

func (e *Exec) addPC(c *sym.Term) {
	if c.IsTrue() {
		return
	}
	e.pc = append(e.pc, c)
	if e.mdlOK {
		if v, ok := e.evalModel(c); !ok || !v {
			e.mdlOK = false
		}
	}
}

// feasibleM asks the solver and keeps the model when sat.
func (e *Exec) feasibleM(c *sym.Term) (sym.Result, map[string]uint64) {
	e.flush()
	e.res.Queries++
	to := e.Sh.Cfg.FeasTimeoutMs
	if to > 2000 {
		to = 2000
	}
	r, m := e.S.Check(c, to, e.nondets)
	if r == sym.Unknown {
		// the long-lived incremental solver gave up quickly; a fresh one-shot process (different
		// tactic pipeline) usually decides the same query at once
		r, m = e.oneShotT(c, e.Sh.Cfg.FeasTimeoutMs)
	}
	if r == sym.Sat && m == nil {
		m = map[string]uint64{}
	}
	return r, m
}

func (e *Exec) feasible(c *sym.Term) sym.Result {
	r, _ := e.feasibleM(c)
	return r
}

var CheckNanos, OneShots int64

// RepoPrefix is stripped from file names in stacks (set by the driver).
var RepoPrefix string
var ForkSites sync.Map // debugging: "fn#block" -> *int64

func (e *Exec) noteFork() {
	if e.cur == nil || os.Getenv("VERIF_FORKS") == "" {
		return
	}
	key := fmt.Sprintf("%s#%d", e.cur.fn.String(), e.cur.block.Index)
	v, _ := ForkSites.LoadOrStore(key, new(int64))
	atomic.AddInt64(v.(*int64), 1)
}

func (e *Exec) queueAlt(d Decision, m map[string]uint64) {
	e.noteFork()
	alt := make([]Decision, len(e.trace)+1)
	copy(alt, e.trace)
	alt[len(e.trace)] = d
	e.alts = append(e.alts, Work{Prefix: alt, Model: m})
}

// branch decides a symbolic condition for this path and queues the other side.
func (e *Exec) branch(c *sym.Term) bool {
	if c.IsConst() {
		return c.Val == 1
	}
	if e.pos < len(e.prefix) {
		d := e.prefix[e.pos]
		e.pos++
		e.trace = append(e.trace, d)
		if d.Taken {
			e.addPC(c)
		} else {
			e.addPC(sym.Not(c))
		}
		return d.Taken
	}
	e.pos++
	if !e.Sh.Deadline.IsZero() && time.Now().After(e.Sh.Deadline) {
		e.end(EndSteps, "wall-clock deadline reached inside a path")
	}
	nc := sym.Not(c)
	if v, ok := e.evalModel(c); ok {
		// the cached model witnesses one side; only the other needs the solver
		if v {
			r, m := e.feasibleM(nc)
			if r == sym.Unsat {
				e.trace = append(e.trace, Decision{Taken: true, Forced: true})
				e.addPC(c)
				return true
			}
			e.queueAlt(Decision{Taken: false}, m)
			e.trace = append(e.trace, Decision{Taken: true})
			e.addPC(c)
			return true
		}
		r, m := e.feasibleM(c)
		if r == sym.Unsat {
			e.trace = append(e.trace, Decision{Taken: false, Forced: true})
			e.addPC(nc)
			return false
		}
		e.queueAlt(Decision{Taken: false}, e.mdl)
		e.trace = append(e.trace, Decision{Taken: true})
		if r == sym.Sat {
			e.setModel(m)
		} else {
			e.mdlOK = false
		}
		e.addPC(c)
		return true
	}
	rt, mt := e.feasibleM(c)
	if rt == sym.Unsat {
		e.trace = append(e.trace, Decision{Taken: false, Forced: true})
		e.addPC(nc)
		return false
	}
	rf, mf := e.feasibleM(nc)
	if rf == sym.Unsat {
		e.trace = append(e.trace, Decision{Taken: true, Forced: true})
		if rt == sym.Sat {
			e.setModel(mt)
		}
		e.addPC(c)
		return true
	}
	e.queueAlt(Decision{Taken: false}, mf)
	e.trace = append(e.trace, Decision{Taken: true})
	if rt == sym.Sat {
		e.setModel(mt)
	}
	e.addPC(c)
	return true
}

// assume restricts the path; an infeasible assumption ends it silently.
func (e *Exec) assume(c *sym.Term) {
	if c.IsConst() {
		if c.Val == 0 {
			e.end(EndInfeasible, "assume(false)")
		}
		return
	}
	if e.pos < len(e.prefix) {
		d := e.prefix[e.pos]
		e.pos++
		e.trace = append(e.trace, d)
		e.addPC(c)
		return
	}
	e.pos++
	if v, ok := e.evalModel(c); !ok || !v {
		r, m := e.feasibleM(c)
		if r == sym.Unsat {
			e.end(EndInfeasible, "assumption unsatisfiable")
		}
		if r == sym.Sat {
			e.setModel(m)
		} else {
			e.mdlOK = false
		}
	}
	e.trace = append(e.trace, Decision{Taken: true, Forced: true})
	e.addPC(c)
}

// concretize picks a feasible concrete value of t for this path, queueing the rest.
func (e *Exec) concretize(t *sym.Term) uint64 {
	if t.IsConst() {
		return t.Val
	}
	for n := 0; ; n++ {
		if n > e.Sh.Cfg.ConcCap {
			e.end(EndConcretize, "more than %d values at a concretisation site @ %s", e.Sh.Cfg.ConcCap, e.stackString())
		}
		var v uint64
		if e.pos < len(e.prefix) {
			d := e.prefix[e.pos]
			if !d.HasVal {
				panic("gossa: decision trace out of sync (concretize)")
			}
			v = d.Val
			e.pos++
			e.trace = append(e.trace, d)
			c := sym.Eq(t, sym.BV(v, t.W))
			if d.Taken {
				e.addPC(c)
				return v
			}
			e.addPC(sym.Not(c))
			continue
		}
		e.flush()
		e.res.Queries++
		probe := sym.Var(fmt.Sprintf("conc!%d", t.ID), t.W)
		r, m := e.S.Check(sym.Eq(probe, t), e.Sh.Cfg.FeasTimeoutMs, []*sym.Term{probe})
		if r == sym.Unknown {
			asserts := append(append([]*sym.Term{}, e.pc...), sym.Eq(probe, t))
			e.res.Queries++
			atomic.AddInt64(&OneShots, 1)
			r, m = sym.RunScriptModel(sym.Primary(), sym.ScriptWithModel(asserts, []*sym.Term{probe}), time.Duration(e.Sh.Cfg.CheckTimeout)*time.Millisecond, []*sym.Term{probe})
		}
		if r != sym.Sat {
			if r == sym.Unsat {
				e.end(EndInfeasible, "no value left")
			}
			e.end(EndUnsupported, "solver gave no model for concretisation @ %s", e.stackString())
		}
		v = m[probe.Name]
		e.pos++
		c := sym.Eq(t, sym.BV(v, t.W))
		// is another value possible?
		e.res.Queries++
		r2, _ := e.S.Check(sym.Not(c), e.Sh.Cfg.FeasTimeoutMs, nil)
		if r2 == sym.Unsat {
			e.trace = append(e.trace, Decision{Taken: true, Forced: true, HasVal: true, Val: v})
			e.addPC(c)
			return v
		}
		e.queueAlt(Decision{Taken: false, HasVal: true, Val: v}, nil)
		e.trace = append(e.trace, Decision{Taken: true, HasVal: true, Val: v})
		e.addPC(c)
		return v
	}
}

// uniq replaces t by a constant when the path condition implies a single value for it
// (sound: pc => t == v is checked by the solver). It keeps control-like quantities such
// as bit counts and buffer indices concrete on paths that determine them.
func (e *Exec) uniq(t *sym.Term) *sym.Term {
	d := e.Sh.Cfg.UniqDepth
	if d <= 0 || t == nil || t.IsConst() || t.Arr || t.W == 0 || t.W > 64 || int(t.D) < d || e.scope != nil || e.inInit {
		return t
	}
	if e.uniqNo == nil {
		e.uniqNo = map[*sym.Term]bool{}
	}
	if e.uniqNo[t] {
		return t
	}
	if e.pos < len(e.prefix) {
		dd := e.prefix[e.pos]
		if !dd.Uniq {
			panic("gossa: decision trace out of sync (uniq)")
		}
		e.pos++
		e.trace = append(e.trace, dd)
		if dd.Taken {
			return sym.BV(dd.Val, t.W)
		}
		e.uniqNo[t] = true
		return t
	}
	e.pos++
	var v uint64
	have := false
	if e.mdlOK {
		if x, ok := sym.Eval(t, e.mdl, e.mdlMemo); ok {
			v, have = x, true
		}
	}
	if !have {
		e.flush()
		e.res.Queries++
		probe := sym.Var(fmt.Sprintf("uniq!%d", t.ID), t.W)
		r, m := e.S.Check(sym.Eq(probe, t), e.Sh.Cfg.FeasTimeoutMs, append([]*sym.Term{probe}, e.nondets...))
		if r != sym.Sat {
			e.trace = append(e.trace, Decision{Uniq: true})
			e.uniqNo[t] = true
			return t
		}
		v = m[probe.Name]
		delete(m, probe.Name)
		e.setModel(m)
	}
	r, m := e.feasibleM(sym.Not(sym.Eq(t, sym.BV(v, t.W))))
	if r == sym.Unsat {
		e.trace = append(e.trace, Decision{Uniq: true, Taken: true, HasVal: true, Val: v})
		return sym.BV(v, t.W)
	}
	_ = m
	e.trace = append(e.trace, Decision{Uniq: true})
	e.uniqNo[t] = true
	return t
}

func (e *Exec) model() []NondetVal {
	if len(e.nondets) == 0 {
		return nil
	}
	e.flush()
	to := e.Sh.Cfg.CheckTimeout
	if to > 10000 {
		to = 10000
	}
	r, m := e.S.Check(nil, to, e.nondets)
	if r == sym.Unknown {
		// the incremental core gave up: a fresh one-shot solver often decides the same query
		r, m = e.oneShot(sym.True)
	}
	if r != sym.Sat {
		if d := os.Getenv("VERIF_DUMP_UNKNOWN"); d != "" {
			os.WriteFile(fmt.Sprintf("%s/nomodel-%d.smt2", d, len(e.pc)), []byte(sym.Script(e.pc)), 0o644)
		}
		return nil
	}
	return e.modelFrom(m)
}

func (e *Exec) modelFrom(m map[string]uint64) []NondetVal {
	out := make([]NondetVal, len(e.nondets))
	for i, v := range e.nondets {
		out[i] = NondetVal{Name: v.Name, W: v.W, Val: m[v.Name]}
	}
	return out
}

// check discharges an assertion without forking.
func (e *Exec) check(c *sym.Term, label string) {
	rec := CheckRec{Label: label}
	if c.IsTrue() {
		rec.Verdict = "discharged"
		e.res.Checks = append(e.res.Checks, rec)
		return
	}
	neg := sym.Not(c)
	inWrap := e.wrapLabel != "" && label == e.wrapLabel
	if inWrap {
		// a wrap-around obligation that the term bounds could not exclude: concrete extreme candidates
		// first (cheap), the solver only if none of them is a counterexample
		if m2 := e.extremeCounterexample(neg); m2 != nil {
			rec.Verdict = "violated"
			rec.Model = e.modelFrom(m2)
			rec.Stack = e.stackString()
			e.res.Checks = append(e.res.Checks, rec)
			e.wrapLabel = "" // one report per region; the rest of the path runs unchecked for wrap-around
			if e.Sh.Cfg.StopOnFail {
				e.end(EndStopped, "check failed: "+label)
			}
			return
		}
	}
	e.flush()
	e.res.Queries++
	if e.Sh.KeepScript {
		rec.Script = sym.Script(append(append([]*sym.Term{}, e.pc...), neg))
	}
	quickTO := e.Sh.Cfg.CheckTimeout
	if quickTO > 4000 {
		quickTO = 4000
	}
	tq := time.Now()
	r, m := e.S.Check(neg, quickTO, e.nondets)
	atomic.AddInt64(&CheckNanos, int64(time.Since(tq)))
	if r == sym.Unknown && e.Sh.Cfg.CheckTimeout > quickTO {
		atomic.AddInt64(&OneShots, 1)
		// the incremental core gave up: re-ask a fresh one-shot solver (different tactic pipeline)
		r, m = e.oneShot(neg)
	}
	if r == sym.Unknown {
		// last resort for a counterexample: evaluate the negated assertion under extreme concrete
		// candidates (every symbolic byte 0xFF or 0x00 - sums and products peak there - and every wider
		// variable at the largest value the path condition allows). A candidate that satisfies the path
		// condition and falsifies the assertion is a real counterexample (replayed natively like any
		// other); finding none proves nothing and the verdict stays unknown.
		if m2 := e.extremeCounterexample(neg); m2 != nil {
			r, m = sym.Sat, m2
		}
	}
	switch r {
	case sym.Unsat:
		rec.Verdict = "discharged"
		// a proved assertion is a lemma for the rest of the path
		e.pc = append(e.pc, c)
	case sym.Sat:
		rec.Verdict = "violated"
		rec.Model = e.modelFrom(m)
		rec.Stack = e.stackString()
	default:
		rec.Verdict = "unknown"
		if d := os.Getenv("VERIF_DUMP_UNKNOWN"); d != "" {
			sc := sym.Script(append(append([]*sym.Term{}, e.pc...), neg))
			os.WriteFile(fmt.Sprintf("%s/unknown-%s-%d.smt2", d, strings.ReplaceAll(label, "/", "_"), neg.ID), []byte(sc), 0o644)
		}
	}
	e.res.Checks = append(e.res.Checks, rec)
	if r == sym.Sat {
		if e.Sh.Cfg.StopOnFail {
			e.end(EndStopped, "check failed: "+label)
		}
		// continue under the assumption that the check held, so that one
		// failure does not cascade.
		e.assume(c)
	}
}

// oneShot decides pc ∧ extra with a fresh z3 process and, when sat, obtains the
// model of the nondet variables from it.
func (e *Exec) extremeCounterexample(neg *sym.Term) map[string]uint64 {
	wide := e.wrapWide
	if wide == nil {
		wide = map[string]uint64{}
	}
	for _, v := range e.nondets {
		if v.W <= 8 || v.W > 64 {
			continue
		}
		if _, done := wide[v.Name]; done {
			continue
		}
		// largest feasible value of v under the path condition, bit by bit (small queries)
		val := uint64(0)
		for bit := v.W - 1; bit >= 0; bit-- {
			try := val | uint64(1)<<uint(bit)
			// one-shot: the long-lived solver may just have been restarted after a timeout
			if r, _ := e.oneShotT(sym.UGE(v, sym.BV(try, v.W)), 5000); r == sym.Sat {
				val = try
			}
		}
		wide[v.Name] = val
	}
	if e.wrapLabel != "" {
		e.wrapWide = wide // the path condition does not change inside a wrap region unless a check fails
	}
	for _, pin := range []uint64{0xFF, 0} {
		m := map[string]uint64{}
		for _, v := range e.nondets {
			if v.W <= 8 {
				m[v.Name] = pin & (uint64(1)<<uint(v.W) - 1)
			} else {
				m[v.Name] = wide[v.Name]
			}
		}
		memo := map[*sym.Term]uint64{}
		ok := true
		for _, c := range e.pc {
			if v, evalOK := sym.Eval(c, m, memo); !evalOK || v != 1 {
				if os.Getenv("VERIF_DEBUG") != "" {
					fmt.Fprintf(os.Stderr, "extreme candidate pin=%#x wide=%v: path condition term false (evalOK=%v): %s\n", pin, wide, evalOK, c.String())
				}
				ok = false
				break
			}
		}
		if !ok {
			continue
		}
		v, evalOK := sym.Eval(neg, m, memo)
		if os.Getenv("VERIF_DEBUG") != "" {
			fmt.Fprintf(os.Stderr, "extreme candidate pin=%#x wide=%v: pc ok, neg=%d evalOK=%v\n", pin, wide, v, evalOK)
		}
		if evalOK && v == 1 {
			return m
		}
	}
	return nil
}

func (e *Exec) oneShot(extra *sym.Term) (sym.Result, map[string]uint64) {
	return e.oneShotT(extra, e.Sh.Cfg.CheckTimeout)
}

func (e *Exec) oneShotT(extra *sym.Term, timeoutMs int) (sym.Result, map[string]uint64) {
	asserts := append(append([]*sym.Term{}, e.pc...), extra)
	sc := sym.ScriptWithModel(asserts, e.nondets)
	e.res.Queries++
	atomic.AddInt64(&OneShots, 1)
	return sym.RunScriptModel(sym.Primary(), sc, time.Duration(timeoutMs)*time.Millisecond, e.nondets)
}

func (e *Exec) nondet(name string, w int) *sym.Term {
	if e.scope != nil {
		e.unsupported("nondet inside a merged call")
	}
	k := e.nondetCount[name]
	e.nondetCount[name] = k + 1
	v := sym.Var(fmt.Sprintf("%s#%d", name, k), w)
	e.nondets = append(e.nondets, v)
	return v
}

// ---- objects ----

func (e *Exec) newObj(v Value, desc string) *Obj {
	e.nextObj++
	return &Obj{ID: e.nextObj, V: v, Desc: desc}
}

func (e *Exec) alloc(t types.Type, desc string) *PtrV {
	return &PtrV{Obj: e.newObj(zero(t), desc)}
}

// ---- function info ----

func (sh *Shared) info(fn *ssa.Function) *fnInfo {
	if v, ok := sh.fnInfos.Load(fn); ok {
		return v.(*fnInfo)
	}
	fi := &fnInfo{slots: map[ssa.Value]int{}}
	add := func(v ssa.Value) {
		fi.slots[v] = fi.n
		fi.n++
	}
	for _, p := range fn.Params {
		add(p)
	}
	for _, p := range fn.FreeVars {
		add(p)
	}
	for _, b := range fn.Blocks {
		for _, in := range b.Instrs {
			if v, ok := in.(ssa.Value); ok {
				add(v)
			}
		}
	}
	sh.fnInfos.Store(fn, fi)
	return fi
}

func (e *Exec) constVal(c *ssa.Const) Value {
	t := c.Type()
	if c.Value == nil {
		return zero(t)
	}
	if _, ok := t.Underlying().(*types.Interface); ok {
		// untyped nil / constant boxed: not produced by ssa for non-nil
		return zero(t)
	}
	if tp, ok := t.(*types.TypeParam); ok {
		_ = tp
		e.unsupported("constant of type parameter type")
	}
	if w, signed, ok := intInfo(t); ok {
		if w == 0 {
			return sym.Bool(constant.BoolVal(c.Value))
		}
		if signed {
			return sym.BV(uint64(c.Int64()), w)
		}
		return sym.BV(c.Uint64(), w)
	}
	if w, ok := isFloat(t); ok {
		return FloatV{c.Float64(), w}
	}
	if isString(t) {
		return &StrV{S: constant.StringVal(c.Value)}
	}
	e.unsupported("constant %s of type %s", c, t)
	return nil
}

func (e *Exec) get(fr *frame, v ssa.Value) Value {
	switch x := v.(type) {
	case *ssa.Const:
		return e.constVal(x)
	case *ssa.Global:
		return &PtrV{Obj: e.global(x)}
	case *ssa.Function:
		return x
	case *ssa.Builtin:
		return x
	}
	i, ok := fr.info.slots[v]
	if !ok {
		panic(fmt.Sprintf("gossa: no slot for %s in %s", v.Name(), fr.fn))
	}
	r := fr.regs[i]
	if r == nil {
		panic(fmt.Sprintf("gossa: read of unset register %s in %s", v.Name(), fr.fn))
	}
	return r
}

func (e *Exec) set(fr *frame, v ssa.Value, val Value) {
	fr.regs[fr.info.slots[v]] = val
}

// ---- globals ----

func (e *Exec) global(g *ssa.Global) *Obj {
	if o, ok := e.globals[g]; ok {
		return o
	}
	elem := g.Type().(*types.Pointer).Elem()
	var o *Obj
	if tmpl, ok := e.Sh.tmplGlobals[g]; ok && !e.inInit {
		o = e.cloneObj(tmpl)
	} else if e.inInit || e.Sh.RunInit[g.Pkg] {
		o = e.newObj(zero(elem), "global "+g.String())
	} else {
		// foreign package whose init is not executed
		o = e.newObj(e.foreignGlobal(g, elem), "foreign global "+g.String())
	}
	e.globals[g] = o
	return o
}

func (e *Exec) foreignGlobal(g *ssa.Global, elem types.Type) Value {
	if types.Identical(elem, types.Universe.Lookup("error").Type()) {
		return &IfaceV{T: opaqueErrType, V: &OpaqueV{Tag: g.String()}}
	}
	return zero(elem)
}

var opaqueErrType = types.NewNamed(types.NewTypeName(token.NoPos, nil, "verifOpaqueError", nil), types.NewStruct(nil, nil), nil)

// cloneObj deep-copies a template object (and everything reachable) for this path.
func (e *Exec) cloneObj(o *Obj) *Obj {
	if o == nil {
		return nil
	}
	if n, ok := e.cloneMemo[o]; ok {
		return n
	}
	e.nextObj++
	n := &Obj{ID: e.nextObj, Desc: o.Desc}
	e.cloneMemo[o] = n
	n.V = e.cloneVal(o.V)
	return n
}

func (e *Exec) cloneVal(v Value) Value {
	switch x := v.(type) {
	case *PtrV:
		if x.Obj == nil {
			return x
		}
		return &PtrV{Obj: e.cloneObj(x.Obj), Path: x.Path}
	case *SliceV:
		if x.Arr.Obj == nil {
			return x
		}
		return &SliceV{Arr: &PtrV{Obj: e.cloneObj(x.Arr.Obj), Path: x.Arr.Path}, Off: x.Off, Len: x.Len, Cap: x.Cap}
	case *StructV:
		n := &StructV{F: make([]Value, len(x.F))}
		for i, f := range x.F {
			n.F[i] = e.cloneVal(f)
		}
		return n
	case *ArrayV:
		n := &ArrayV{N: x.N, Sym: x.Sym}
		if x.E != nil {
			n.E = make([]Value, len(x.E))
			scalar := len(x.E) > 0
			if scalar {
				_, scalar = x.E[0].(*sym.Term)
			}
			if scalar {
				copy(n.E, x.E)
			} else {
				for i, f := range x.E {
					n.E[i] = e.cloneVal(f)
				}
			}
		}
		return n
	case *IfaceV:
		if x.T == nil {
			return x
		}
		return &IfaceV{T: x.T, V: e.cloneVal(x.V)}
	case *MapV:
		if x == nil {
			return x
		}
		n := &MapV{M: map[interface{}]*mapEntry{}, Keys: append([]interface{}{}, x.Keys...)}
		for k, en := range x.M {
			n.M[k] = &mapEntry{K: e.cloneVal(en.K), V: e.cloneVal(en.V)}
		}
		return n
	case *ClosureV:
		if x == nil {
			return x
		}
		n := &ClosureV{Fn: x.Fn, Free: make([]Value, len(x.Free))}
		for i, f := range x.Free {
			n.Free[i] = e.cloneVal(f)
		}
		return n
	case *BigV:
		return &BigV{V: x.V, Bits: x.Bits, Poison: x.Poison}
	case TupleV:
		n := make(TupleV, len(x))
		for i, f := range x {
			n[i] = e.cloneVal(f)
		}
		return n
	}
	return v
}
