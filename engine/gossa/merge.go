package gossa

import (
	"verif/engine/sym"

	"golang.org/x/tools/go/ssa"
)

// Merge mode ("summarise the callee"): every path of one call is explored
// locally, the heap is rolled back between paths, and the outcomes are folded
// into one state with ite terms. Only scalar effects can be folded; anything
// else falls back to ordinary forking execution of the call.

type mergeScope struct {
	baseObj   int
	saved     map[*Obj]Value
	order     []*Obj
	decisions int
}

func (m *mergeScope) note(o *Obj) {
	if o.ID > m.baseObj {
		return
	}
	if _, ok := m.saved[o]; ok {
		return
	}
	m.saved[o] = copyVal(o.V)
	m.order = append(m.order, o)
}

// freshScalarObj: the object was allocated inside the current merged call and
// holds one scalar (a big.Int model value or a term).
func (e *Exec) freshScalarObj(p *PtrV) bool {
	if p.Obj == nil || len(p.Path) != 0 || p.Obj.ID <= e.mergeBase {
		return false
	}
	return scalarLeaf(p.Obj.V)
}

// mergePtr folds two pointers. Identical pointers stay; pointers to two
// distinct objects that were both allocated inside the merged call and hold a
// scalar are replaced by a pointer to one new object holding the ite of the
// two values (sound as long as neither object is reachable from anywhere else,
// which callMerged checks by scanning the heap writes of the call).
func (e *Exec) mergePtr(g *sym.Term, a, b *PtrV) Value {
	if a.Obj == b.Obj && pathEq(a.Path, b.Path).IsTrue() {
		return a
	}
	if e.mergeBase > 0 && e.freshScalarObj(a) && e.freshScalarObj(b) {
		e.mergedFresh[a.Obj] = true
		e.mergedFresh[b.Obj] = true
		n := e.newObj(e.mergeVal(g, a.Obj.V, b.Obj.V), "merged "+a.Obj.Desc)
		return &PtrV{Obj: n}
	}
	e.unsupported("merge of distinct pointers")
	return nil
}

// refersTo reports whether v contains a pointer to any object in set.
func refersTo(v Value, set map[*Obj]bool, depth int) bool {
	if depth > 6 {
		return false
	}
	switch x := v.(type) {
	case *PtrV:
		return x.Obj != nil && set[x.Obj]
	case *SliceV:
		return x.Arr.Obj != nil && set[x.Arr.Obj]
	case *StructV:
		for _, f := range x.F {
			if refersTo(f, set, depth+1) {
				return true
			}
		}
	case *ArrayV:
		for _, f := range x.E {
			if _, isT := f.(*sym.Term); isT {
				return false
			}
			if refersTo(f, set, depth+1) {
				return true
			}
		}
	case *IfaceV:
		if x.T != nil {
			return refersTo(x.V, set, depth+1)
		}
	case TupleV:
		for _, f := range x {
			if refersTo(f, set, depth+1) {
				return true
			}
		}
	}
	return false
}

type mergeOutcome struct {
	cond   *sym.Term
	ret    Value
	writes map[*Obj]Value
}

func (e *Exec) callMerged(fn *ssa.Function, args []Value, free []Value, site ssa.Instruction) Value {
	e.flush()
	pcLen := len(e.pc)
	flushed := e.flushed
	gPrefix, gPos, gTrace, gAlts := e.prefix, e.pos, e.trace, e.alts
	gMdl, gMdlOK, gMemo := e.mdl, e.mdlOK, e.mdlMemo
	baseObj := e.nextObj
	var outcomes []mergeOutcome
	var touched []*Obj
	touchedSet := map[*Obj]bool{}
	origVals := map[*Obj]Value{}
	stack := []Work{{Model: gMdl}}
	fallback := false
	replaying := false
	var subTraces [][]Decision
	if gPos < len(gPrefix) {
		d := gPrefix[gPos]
		if !d.IsSub {
			panic("gossa: decision trace out of sync (merged call)")
		}
		replaying = true
		stack = nil
		for i := len(d.Sub) - 1; i >= 0; i-- {
			stack = append(stack, Work{Prefix: d.Sub[i], Model: gMdl})
		}
		if len(d.Sub) == 0 {
			fallback = true
		}
	}
	for len(stack) > 0 && !fallback {
		w := stack[len(stack)-1]
		stack = stack[:len(stack)-1]
		sc := &mergeScope{baseObj: baseObj, saved: map[*Obj]Value{}}
		e.scope = sc
		e.prefix, e.pos, e.trace, e.alts = w.Prefix, 0, nil, nil
		if gMdlOK && w.Model != nil {
			e.setModel(w.Model)
		} else {
			e.mdlOK = false
		}
		epoch := e.S.Epoch
		e.S.Push()
		var ret Value
		infeasible := false
		func() {
			defer func() {
				if r := recover(); r != nil {
					if pe, ok := r.(pathEnd); ok && pe.Kind == EndInfeasible {
						infeasible = true
						return
					}
					fallback = true
					if _, ok := r.(*goPanic); ok {
						return
					}
					if _, ok := r.(pathEnd); ok {
						return
					}
					panic(r)
				}
			}()
			// argument aggregates are copied per local path
			a2 := make([]Value, len(args))
			for i, a := range args {
				a2[i] = copyVal(a)
			}
			e.scope = sc
			ret = e.callPlain(fn, a2, free, site)
		}()
		cond := sym.True
		for _, c := range e.pc[pcLen:] {
			cond = sym.And(cond, c)
		}
		writes := map[*Obj]Value{}
		for _, o := range sc.order {
			writes[o] = copyVal(o.V)
			o.V = sc.saved[o]
			if !touchedSet[o] {
				touchedSet[o] = true
				touched = append(touched, o)
				origVals[o] = sc.saved[o]
			}
		}
		e.pc = e.pc[:pcLen]
		if e.S.Epoch == epoch {
			e.S.Pop()
			e.flushed = flushed
		}
		if !replaying {
			stack = append(stack, e.alts...)
		}
		if !infeasible && !fallback {
			outcomes = append(outcomes, mergeOutcome{cond, ret, writes})
			subTraces = append(subTraces, e.trace)
		}
	}
	e.scope = nil
	e.prefix, e.pos, e.trace, e.alts = gPrefix, gPos, gTrace, gAlts
	e.mdl, e.mdlOK, e.mdlMemo = gMdl, gMdlOK, gMemo
	// one global decision records the whole local exploration (empty Sub = fell back)
	rec := Decision{IsSub: true, Forced: true}
	if !fallback {
		rec.Sub = subTraces
	}
	if replaying {
		rec = gPrefix[gPos]
	}
	e.pos++
	e.trace = append(e.trace, rec)
	if !fallback && len(outcomes) == 0 {
		e.end(EndInfeasible, "merged call has no feasible path")
	}
	if !fallback {
		// fold outcomes
		ok := true
		var ret Value
		func() {
			defer func() {
				if r := recover(); r != nil {
					if pe, isPE := r.(pathEnd); isPE && pe.Kind == EndUnsupported {
						ok = false
						return
					}
					panic(r)
				}
			}()
			e.mergeBase = baseObj
			e.mergedFresh = map[*Obj]bool{}
			defer func() { e.mergeBase = 0 }()
			last := outcomes[len(outcomes)-1]
			ret = last.ret
			for i := len(outcomes) - 2; i >= 0; i-- {
				ret = e.mergeRet(outcomes[i].cond, outcomes[i].ret, ret)
			}
			newVals := map[*Obj]Value{}
			for _, o := range touched {
				val := func(oc mergeOutcome) Value {
					if v, ok := oc.writes[o]; ok {
						return v
					}
					return origVals[o]
				}
				v := val(last)
				for i := len(outcomes) - 2; i >= 0; i-- {
					v = e.mergeVal(outcomes[i].cond, val(outcomes[i]), v)
				}
				newVals[o] = v
			}
			// objects whose pointers were folded must not be reachable from the heap writes
			if len(e.mergedFresh) > 0 {
				for _, v := range newVals {
					if refersTo(v, e.mergedFresh, 0) {
						e.unsupported("folded object escapes through the heap")
					}
				}
			}
			for o, v := range newVals {
				o.V = v
			}
		}()
		if ok {
			e.Sh.noteMerge(fn.String(), len(outcomes))
			return ret
		}
	}
	// fallback: ordinary (forking) execution
	return e.callPlain(fn, args, free, site)
}

func (e *Exec) mergeRet(g *sym.Term, a, b Value) Value {
	if a == nil && b == nil {
		return nil
	}
	if ta, ok := a.(TupleV); ok {
		tb := b.(TupleV)
		n := make(TupleV, len(ta))
		for i := range ta {
			n[i] = e.mergeRet(g, ta[i], tb[i])
		}
		return n
	}
	if pa, ok := a.(*PtrV); ok {
		if pb, ok2 := b.(*PtrV); ok2 {
			return e.mergePtr(g, pa, pb)
		}
	}
	if ia, ok := a.(*IfaceV); ok {
		ib, ok2 := b.(*IfaceV)
		if ok2 && ia.T == nil && ib.T == nil {
			return a
		}
	}
	return e.mergeVal(g, a, b)
}
