package gossa

import (
	"go/token"
	"go/types"
	"math"

	"verif/engine/sym"

	"golang.org/x/tools/go/ssa"
)

func (e *Exec) unop(fr *frame, x *ssa.UnOp) Value {
	v := e.get(fr, x.X)
	switch x.Op {
	case token.MUL: // load
		return e.load(v.(*PtrV))
	case token.NOT:
		return sym.Not(asTerm(v))
	case token.SUB:
		if f, ok := v.(FloatV); ok {
			return FloatV{-f.F, f.W}
		}
		return sym.Neg(asTerm(v))
	case token.XOR:
		return sym.BNot(asTerm(v))
	case token.ARROW:
		e.unsupported("channel receive")
	}
	e.unsupported("unop %s", x.Op)
	return nil
}

func (e *Exec) binop(op token.Token, x, y Value, xt, yt types.Type) Value {
	switch a := x.(type) {
	case *sym.Term:
		b, ok := y.(*sym.Term)
		if !ok {
			break
		}
		return e.intBinop(op, a, b, xt, yt)
	case FloatV:
		b := y.(FloatV)
		return floatBinop(e, op, a, b)
	case *StrV:
		return e.strBinop(op, a, y.(*StrV))
	}
	switch op {
	case token.EQL:
		return e.equal(x, y)
	case token.NEQ:
		return sym.Not(e.equal(x, y))
	}
	e.unsupported("binop %s on %T", op, x)
	return nil
}

func floatBinop(e *Exec, op token.Token, a, b FloatV) Value {
	r := func(f float64) Value {
		if a.W == 32 {
			f = float64(float32(f))
		}
		return FloatV{f, a.W}
	}
	switch op {
	case token.ADD:
		return r(a.F + b.F)
	case token.SUB:
		return r(a.F - b.F)
	case token.MUL:
		return r(a.F * b.F)
	case token.QUO:
		return r(a.F / b.F)
	case token.EQL:
		return sym.Bool(a.F == b.F)
	case token.NEQ:
		return sym.Bool(a.F != b.F)
	case token.LSS:
		return sym.Bool(a.F < b.F)
	case token.LEQ:
		return sym.Bool(a.F <= b.F)
	case token.GTR:
		return sym.Bool(a.F > b.F)
	case token.GEQ:
		return sym.Bool(a.F >= b.F)
	}
	e.unsupported("float binop %s", op)
	return nil
}

func (e *Exec) intBinop(op token.Token, a, b *sym.Term, xt, yt types.Type) Value {
	if a.W == 0 { // bool
		switch op {
		case token.EQL:
			return sym.Eq(a, b)
		case token.NEQ:
			return sym.Not(sym.Eq(a, b))
		case token.AND, token.LAND:
			return sym.And(a, b)
		case token.OR, token.LOR:
			return sym.Or(a, b)
		}
		e.unsupported("bool binop %s", op)
	}
	_, signed, _ := intInfo(xt)
	switch op {
	case token.ADD:
		r := sym.Add(a, b)
		if e.wrapLabel != "" && !signed && a.W <= 64 {
			// vWrapBegin .. vWrapEnd: unsigned additions must not wrap. Interval reasoning over the terms
			// discharges most of them; the solver decides the rest.
			if ua, ub := sym.UBoundMemo(a), sym.UBoundMemo(b); ua+ub < ua || (a.W < 64 && ua+ub >= uint64(1)<<uint(a.W)) {
				e.check(sym.UGE(r, a), e.wrapLabel)
			} else {
				e.wrapBounded++
			}
		}
		return r
	case token.SUB:
		return sym.Sub(a, b)
	case token.MUL:
		if e.wrapLabel != "" && !signed && a.W <= 32 {
			if ua, ub := sym.UBoundMemo(a), sym.UBoundMemo(b); ua != 0 && ub > (uint64(1)<<uint(a.W)-1)/ua {
				wide := sym.Mul(sym.ZExt(a, 2*a.W), sym.ZExt(b, 2*a.W))
				e.check(sym.ULE(wide, sym.BV(uint64(1)<<uint(a.W)-1, 2*a.W)), e.wrapLabel)
			} else {
				e.wrapBounded++
			}
		}
		return sym.Mul(a, b)
	case token.QUO, token.REM:
		if !e.branch(sym.Ne(b, sym.BV(0, b.W))) {
			e.goPanic("integer divide by zero", nil)
		}
		if signed {
			if op == token.QUO {
				return sym.SDiv(a, b)
			}
			return sym.SRem(a, b)
		}
		if op == token.QUO {
			return sym.UDiv(a, b)
		}
		return sym.URem(a, b)
	case token.AND:
		return sym.BAnd(a, b)
	case token.OR:
		return sym.BOr(a, b)
	case token.XOR:
		return sym.BXor(a, b)
	case token.AND_NOT:
		return sym.BAnd(a, sym.BNot(b))
	case token.SHL, token.SHR:
		b = e.uniq(b)
		_, ysigned, _ := intInfo(yt)
		if ysigned {
			if !e.branch(sym.SGE(b, sym.BV(0, b.W))) {
				e.goPanic("negative shift amount", nil)
			}
		}
		// bring the count to the operand's width, saturating
		var cnt *sym.Term
		if b.W > a.W {
			big := sym.UGE(b, sym.BV(uint64(a.W), b.W))
			cnt = sym.Ite(big, sym.BV(uint64(a.W), a.W), sym.Extract(b, a.W-1, 0))
			if a.W < 8 {
				e.unsupported("narrow shift")
			}
		} else {
			cnt = sym.ZExt(b, a.W)
		}
		if op == token.SHL {
			return sym.Shl(a, cnt)
		}
		if signed {
			return sym.AShr(a, cnt)
		}
		return sym.LShr(a, cnt)
	case token.EQL:
		return sym.Eq(a, b)
	case token.NEQ:
		return sym.Not(sym.Eq(a, b))
	case token.LSS:
		if signed {
			return sym.SLT(a, b)
		}
		return sym.ULT(a, b)
	case token.LEQ:
		if signed {
			return sym.SLE(a, b)
		}
		return sym.ULE(a, b)
	case token.GTR:
		if signed {
			return sym.SLT(b, a)
		}
		return sym.ULT(b, a)
	case token.GEQ:
		if signed {
			return sym.SLE(b, a)
		}
		return sym.ULE(b, a)
	}
	e.unsupported("int binop %s", op)
	return nil
}

func (e *Exec) strEq(a, b *StrV) *sym.Term {
	if a.Len() != b.Len() {
		return sym.False
	}
	r := sym.True
	for i := 0; i < a.Len(); i++ {
		r = sym.And(r, sym.Eq(a.At(i), b.At(i)))
		if r.IsFalse() {
			return r
		}
	}
	return r
}

func (e *Exec) strBinop(op token.Token, a, b *StrV) Value {
	switch op {
	case token.ADD:
		if !a.Sym && !b.Sym {
			return &StrV{S: a.S + b.S}
		}
		n := &StrV{Sym: true}
		for i := 0; i < a.Len(); i++ {
			n.B = append(n.B, a.At(i))
		}
		for i := 0; i < b.Len(); i++ {
			n.B = append(n.B, b.At(i))
		}
		return n
	case token.EQL:
		return e.strEq(a, b)
	case token.NEQ:
		return sym.Not(e.strEq(a, b))
	}
	as, ok1 := a.Concrete()
	bs, ok2 := b.Concrete()
	if ok1 && ok2 {
		switch op {
		case token.LSS:
			return sym.Bool(as < bs)
		case token.LEQ:
			return sym.Bool(as <= bs)
		case token.GTR:
			return sym.Bool(as > bs)
		case token.GEQ:
			return sym.Bool(as >= bs)
		}
	}
	// lexicographic compare, symbolic
	lt := e.strLess(a, b)
	switch op {
	case token.LSS:
		return lt
	case token.GEQ:
		return sym.Not(lt)
	case token.GTR:
		return e.strLess(b, a)
	case token.LEQ:
		return sym.Not(e.strLess(b, a))
	}
	e.unsupported("string binop %s", op)
	return nil
}

func (e *Exec) strLess(a, b *StrV) *sym.Term {
	// a < b
	n := a.Len()
	if b.Len() < n {
		n = b.Len()
	}
	res := sym.Bool(a.Len() < b.Len())
	for i := n - 1; i >= 0; i-- {
		res = sym.Ite(sym.Eq(a.At(i), b.At(i)), res, sym.ULT(a.At(i), b.At(i)))
	}
	return res
}

func pathEq(a, b []PathElem) *sym.Term {
	if len(a) != len(b) {
		return sym.False
	}
	r := sym.True
	for i := range a {
		if (a[i].Idx == nil) != (b[i].Idx == nil) {
			return sym.False
		}
		if a[i].Idx == nil {
			if a[i].Field != b[i].Field {
				return sym.False
			}
			continue
		}
		r = sym.And(r, sym.Eq(a[i].Idx, b[i].Idx))
	}
	return r
}

func (e *Exec) equal(x, y Value) *sym.Term {
	switch a := x.(type) {
	case *sym.Term:
		return sym.Eq(a, y.(*sym.Term))
	case FloatV:
		return sym.Bool(a.F == y.(FloatV).F)
	case *StrV:
		return e.strEq(a, y.(*StrV))
	case *PtrV:
		b := y.(*PtrV)
		if a.Obj != b.Obj {
			return sym.False
		}
		if a.Obj == nil {
			return sym.True
		}
		return pathEq(a.Path, b.Path)
	case *IfaceV:
		b, ok := y.(*IfaceV)
		if !ok {
			e.unsupported("compare interface with %T", y)
		}
		if a.T == nil || b.T == nil {
			return sym.Bool(a.T == nil && b.T == nil)
		}
		if !types.Identical(a.T, b.T) {
			return sym.False
		}
		return e.equal(a.V, b.V)
	case *StructV:
		b := y.(*StructV)
		r := sym.True
		for i := range a.F {
			r = sym.And(r, e.equal(a.F[i], b.F[i]))
		}
		return r
	case *ArrayV:
		b := y.(*ArrayV)
		r := sym.True
		for i := 0; i < a.N; i++ {
			r = sym.And(r, e.equal(a.getConst(i), b.getConst(i)))
		}
		return r
	case *SliceV: // only comparison with nil is legal
		b := y.(*SliceV)
		if a.Arr.Obj == nil && b.Arr.Obj == nil {
			return sym.True
		}
		return sym.False
	case *MapV:
		b := y.(*MapV)
		return sym.Bool(a == b)
	case *ClosureV:
		b, _ := y.(*ClosureV)
		return sym.Bool(a == nil && b == nil)
	case *ssa.Function:
		if b, ok := y.(*ClosureV); ok && b == nil {
			return sym.False
		}
		return sym.Bool(x == y)
	case *OpaqueV:
		b, ok := y.(*OpaqueV)
		return sym.Bool(ok && a == b)
	case *BigV:
		return sym.Eq(a.V, y.(*BigV).V)
	}
	e.unsupported("equality on %T", x)
	return nil
}

func (e *Exec) convert(v Value, from, to types.Type) Value {
	fu, tu := from.Underlying(), to.Underlying()
	if tw, _, ok := intInfo(tu); ok && tw > 0 {
		switch x := v.(type) {
		case *sym.Term:
			_, fsigned, _ := intInfo(fu)
			return sym.Resize(x, tw, fsigned)
		case FloatV:
			_, tsigned, _ := intInfo(tu)
			if tsigned {
				return sym.BV(uint64(int64(x.F)), tw)
			}
			return sym.BV(uint64(x.F), tw)
		case *PtrV:
			e.unsupported("pointer to integer conversion")
		}
	}
	if tw, ok := isFloat(tu); ok {
		switch x := v.(type) {
		case FloatV:
			if tw == 32 {
				return FloatV{float64(float32(x.F)), 32}
			}
			return FloatV{x.F, 64}
		case *sym.Term:
			if !x.IsConst() {
				e.unsupported("symbolic integer to float conversion")
			}
			_, fsigned, _ := intInfo(fu)
			var f float64
			if fsigned {
				f = float64(x.Signed())
			} else {
				f = float64(x.Val)
			}
			if tw == 32 {
				f = float64(float32(f))
			}
			return FloatV{f, tw}
		}
	}
	if isString(tu) {
		switch x := v.(type) {
		case *StrV:
			return x
		case *SliceV: // []byte or []rune -> string
			et := fu.(*types.Slice).Elem()
			w, _, _ := intInfo(et)
			ts := e.sliceTerms(x)
			if w == 8 {
				s := &StrV{Sym: true, B: ts}
				if c, ok := s.Concrete(); ok {
					return &StrV{S: c}
				}
				return s
			}
			var rs []rune
			for _, t := range ts {
				if !t.IsConst() {
					e.unsupported("symbolic []rune to string")
				}
				rs = append(rs, rune(int32(t.Val)))
			}
			return &StrV{S: string(rs)}
		case *sym.Term: // integer -> string
			if !x.IsConst() {
				e.unsupported("symbolic rune to string")
			}
			return &StrV{S: string(rune(x.Signed()))}
		}
	}
	if ts, ok := tu.(*types.Slice); ok {
		if s, ok := v.(*StrV); ok {
			w, _, _ := intInfo(ts.Elem())
			if w == 8 {
				out := make([]*sym.Term, s.Len())
				for i := range out {
					out[i] = s.At(i)
				}
				return e.byteSlice(out, "[]byte(string)")
			}
			c, ok := s.Concrete()
			if !ok {
				e.unsupported("symbolic string to []rune")
			}
			var out []*sym.Term
			for _, r := range c {
				out = append(out, sym.BV(uint64(r), 32))
			}
			return e.byteSlice(out, "[]rune(string)")
		}
		return v
	}
	switch v.(type) {
	case *PtrV, *SliceV, *MapV, *IfaceV:
		return v // unsafe.Pointer round trips and identical underlying types
	}
	e.unsupported("conversion %s -> %s", from, to)
	return nil
}

var _ = math.Inf
