// Package gossa executes go/ssa functions of the code under test symbolically
// over sym terms (engine E1 of DESIGN.md).
package gossa

import (
	"fmt"
	"go/types"

	"verif/engine/sym"

	"golang.org/x/tools/go/ssa"
)

// Value is one of:
//
//	*sym.Term   bool / integer scalar
//	FloatV      concrete float
//	*PtrV       pointer (Obj==nil: nil pointer)
//	*SliceV     slice
//	*StrV       string
//	*IfaceV     interface value (T==nil: nil interface)
//	*StructV    struct (value semantics: copied on load/store)
//	*ArrayV     array  (value semantics)
//	*ClosureV, *ssa.Function, *ssa.Builtin  functions
//	*MapV       map (reference)
//	TupleV      multiple results
//	*BigV       model of a math/big.Int *value* (lives inside an Obj)
//	*OpaqueV    opaque value (errors made by fmt.Errorf, foreign globals)
type Value interface{}

type FloatV struct {
	F float64
	W int
}

type Obj struct {
	ID   int
	V    Value // the stored value (scalar or aggregate)
	Desc string
	RO   bool
}

type PathElem struct {
	Field int       // >=0: struct field
	Idx   *sym.Term // non-nil: array index (64-bit)
}

type PtrV struct {
	Obj  *Obj
	Path []PathElem
	Fn   Value // pointer-like function value is not represented here
}

var nilPtr = &PtrV{}

func (p *PtrV) IsNil() bool { return p.Obj == nil }

func (p *PtrV) extend(e PathElem) *PtrV {
	np := make([]PathElem, len(p.Path)+1)
	copy(np, p.Path)
	np[len(p.Path)] = e
	return &PtrV{Obj: p.Obj, Path: np}
}

type SliceV struct {
	Arr           *PtrV // pointer to the backing *array* aggregate; nil Obj for a nil slice
	Off, Len, Cap *sym.Term
}

type StrV struct {
	S   string
	B   []*sym.Term // non-nil: symbolic content (concrete length)
	Sym bool
}

func (s *StrV) Len() int {
	if s.Sym {
		return len(s.B)
	}
	return len(s.S)
}

func (s *StrV) At(i int) *sym.Term {
	if s.Sym {
		return s.B[i]
	}
	return sym.BV(uint64(s.S[i]), 8)
}

func (s *StrV) Concrete() (string, bool) {
	if !s.Sym {
		return s.S, true
	}
	b := make([]byte, len(s.B))
	for i, t := range s.B {
		if !t.IsConst() {
			return "", false
		}
		b[i] = byte(t.Val)
	}
	return string(b), true
}

type IfaceV struct {
	T types.Type
	V Value
}

var nilIface = &IfaceV{}

type StructV struct{ F []Value }
type ArrayV struct {
	E []Value
	// Sym, when non-nil, replaces E for byte arrays indexed symbolically.
	Sym *sym.Term
	N   int
}

type ClosureV struct {
	Fn   *ssa.Function
	Free []Value
}

// BoundV is a bound method value / interface method closure handled via ssa's
// synthetic wrappers, so it does not appear separately.

type MapV struct {
	M    map[interface{}]*mapEntry
	Keys []interface{}
}
type mapEntry struct {
	K, V Value
}

type TupleV []Value

// BigV models a math/big.Int value: a signed bit-vector of width BigW plus a
// static bound Bits on the number of significant bits of |V| (|V| < 2^Bits).
type BigV struct {
	V    *sym.Term
	Bits int
	Poison bool // computed during package init outside the model width: any later use ends the path as unsupported
	Cell   *bigCell // set once the big.Int has been copied BY VALUE: such copies share their limbs, so an in-place operation on one is visible through the other (as long as the capacity suffices, which it does for the one-word values of the model)
}

type bigCell struct {
	V    *sym.Term
	Bits int
}

type OpaqueV struct {
	Tag string
	ID  int
}

// RangeIter is the state of a range over string or map.
type RangeIter struct {
	Str  *StrV
	Map  *MapV
	Keys []interface{}
	I    int
}

// BigW is the width of the math/big.Int model (set per property before any harness runs).
var BigW = 64

// Integer type info.
func intInfo(t types.Type) (w int, signed bool, ok bool) {
	b, isb := t.Underlying().(*types.Basic)
	if !isb {
		return 0, false, false
	}
	switch b.Kind() {
	case types.Bool, types.UntypedBool:
		return 0, false, true
	case types.Int8:
		return 8, true, true
	case types.Int16:
		return 16, true, true
	case types.Int32, types.UntypedRune:
		return 32, true, true
	case types.Int64, types.Int, types.UntypedInt:
		return 64, true, true
	case types.Uint8:
		return 8, false, true
	case types.Uint16:
		return 16, false, true
	case types.Uint32:
		return 32, false, true
	case types.Uint64, types.Uint, types.Uintptr:
		return 64, false, true
	}
	return 0, false, false
}

func isFloat(t types.Type) (int, bool) {
	b, isb := t.Underlying().(*types.Basic)
	if !isb {
		return 0, false
	}
	switch b.Kind() {
	case types.Float32:
		return 32, true
	case types.Float64, types.UntypedFloat:
		return 64, true
	}
	return 0, false
}

func isString(t types.Type) bool {
	b, isb := t.Underlying().(*types.Basic)
	return isb && (b.Kind() == types.String || b.Kind() == types.UntypedString)
}

func isBigInt(t types.Type) bool {
	n, ok := t.(*types.Named)
	if !ok {
		return false
	}
	o := n.Obj()
	return o.Pkg() != nil && o.Pkg().Path() == "math/big" && o.Name() == "Int"
}

func i64(v int64) *sym.Term  { return sym.BV(uint64(v), 64) }
func u8(v byte) *sym.Term    { return sym.BV(uint64(v), 8) }
func isConst(v Value) bool   { t, ok := v.(*sym.Term); return ok && t.IsConst() }
func asTerm(v Value) *sym.Term {
	t, ok := v.(*sym.Term)
	if !ok {
		panic(fmt.Sprintf("gossa: expected scalar, got %T", v))
	}
	return t
}

// zero returns the zero value of type t.
func zero(t types.Type) Value {
	if isBigInt(t) {
		return &BigV{V: sym.BV(0, BigW), Bits: 0}
	}
	switch u := t.Underlying().(type) {
	case *types.Basic:
		if w, _, ok := intInfo(u); ok {
			if w == 0 {
				return sym.False
			}
			return sym.BV(0, w)
		}
		if w, ok := isFloat(u); ok {
			return FloatV{0, w}
		}
		if isString(u) {
			return &StrV{}
		}
		if u.Kind() == types.UnsafePointer || u.Kind() == types.UntypedNil {
			return nilPtr
		}
		panic("zero: basic " + u.String())
	case *types.Pointer, *types.Signature, *types.Chan:
		if _, ok := u.(*types.Signature); ok {
			return (*ClosureV)(nil)
		}
		return nilPtr
	case *types.Slice:
		return &SliceV{Arr: nilPtr, Off: i64(0), Len: i64(0), Cap: i64(0)}
	case *types.Interface:
		return nilIface
	case *types.Map:
		return (*MapV)(nil)
	case *types.Struct:
		s := &StructV{F: make([]Value, u.NumFields())}
		for i := range s.F {
			s.F[i] = zero(u.Field(i).Type())
		}
		return s
	case *types.Array:
		n := int(u.Len())
		a := &ArrayV{E: make([]Value, n), N: n}
		if n > 0 {
			if _, _, ok := intInfo(u.Elem()); ok {
				z := zero(u.Elem())
				for i := range a.E {
					a.E[i] = z // terms are immutable: sharing is fine
				}
			} else {
				for i := range a.E {
					a.E[i] = zero(u.Elem())
				}
			}
		}
		return a
	case *types.Tuple:
		tv := make(TupleV, u.Len())
		for i := range tv {
			tv[i] = zero(u.At(i).Type())
		}
		return tv
	}
	panic(fmt.Sprintf("zero: unsupported type %s", t))
}

// copyVal copies aggregates (value semantics); everything else is immutable
// or has reference semantics.
func copyVal(v Value) Value {
	switch x := v.(type) {
	case *StructV:
		n := &StructV{F: make([]Value, len(x.F))}
		for i, f := range x.F {
			n.F[i] = copyVal(f)
		}
		return n
	case *ArrayV:
		n := &ArrayV{N: x.N, Sym: x.Sym}
		if x.E != nil {
			n.E = make([]Value, len(x.E))
			for i, f := range x.E {
				n.E[i] = copyVal(f)
			}
		}
		return n
	case *BigV:
		return &BigV{V: x.V, Bits: x.Bits, Poison: x.Poison, Cell: x.Cell}
	case TupleV:
		n := make(TupleV, len(x))
		for i, f := range x {
			n[i] = copyVal(f)
		}
		return n
	}
	return v
}
