package gossa

import (
	"verif/engine/sym"
)

func idx32(t *sym.Term) *sym.Term { return sym.Resize(t, 32, false) }

// toSymArr switches a byte array to SMT-array representation.
func (a *ArrayV) toSym() {
	if a.Sym != nil {
		return
	}
	arr := sym.ConstArr(sym.BV(0, 8))
	for i, v := range a.E {
		t := v.(*sym.Term)
		if t.IsConst() && t.Val == 0 {
			continue
		}
		arr = sym.Store(arr, sym.BV(uint64(i), 32), t)
	}
	a.Sym = arr
	a.E = nil
}

func (a *ArrayV) isByteArray() bool {
	if a.Sym != nil {
		return true
	}
	if len(a.E) == 0 {
		return false
	}
	t, ok := a.E[0].(*sym.Term)
	return ok && t.W == 8
}

func (a *ArrayV) getConst(i int) Value {
	if a.Sym != nil {
		return sym.Select(a.Sym, sym.BV(uint64(i), 32))
	}
	return a.E[i]
}

func (e *Exec) load(p *PtrV) Value {
	if p.Obj == nil {
		e.goPanic("nil dereference", nil)
	}
	v := e.loadPath(p.Obj.V, p.Path)
	if b, ok := v.(*BigV); ok && !e.inInit {
		// a big.Int read BY VALUE (z := *i): the copy shares its limb storage with the original
		if b.Cell == nil {
			b.Cell = &bigCell{V: b.V, Bits: b.Bits}
		}
	}
	return copyVal(v)
}

func (e *Exec) loadPath(v Value, path []PathElem) Value {
	for i, pe := range path {
		if pe.Idx == nil {
			v = v.(*StructV).F[pe.Field]
			continue
		}
		a := v.(*ArrayV)
		if !pe.Idx.IsConst() {
			pe.Idx = e.uniq(pe.Idx)
		}
		if pe.Idx.IsConst() {
			if int(pe.Idx.Val) >= a.N {
				e.unsupported("index %d beyond array of %d (bounds check missing in the encoder)", pe.Idx.Val, a.N)
			}
			v = a.getConst(int(pe.Idx.Val))
			continue
		}
		rest := path[i+1:]
		if a.Sym != nil || (a.N > e.Sh.Cfg.IteCap && a.isByteArray() && len(rest) == 0) {
			a.toSym()
			return sym.Select(a.Sym, idx32(pe.Idx))
		}
		if a.N <= e.Sh.Cfg.IteCap && a.N > 0 {
			vals := make([]*sym.Term, a.N)
			ok := true
			for k := 0; k < a.N; k++ {
				lv := e.loadPath(a.E[k], rest)
				t, isT := lv.(*sym.Term)
				if !isT {
					ok = false
					break
				}
				vals[k] = t
			}
			if ok {
				res := vals[a.N-1]
				for k := a.N - 2; k >= 0; k-- {
					res = sym.Ite(sym.Eq(pe.Idx, sym.BV(uint64(k), pe.Idx.W)), vals[k], res)
				}
				return res
			}
		}
		k := e.concretize(pe.Idx)
		v = a.getConst(int(k))
	}
	return v
}

func (e *Exec) store(p *PtrV, val Value) {
	if p.Obj == nil {
		e.goPanic("nil dereference", nil)
	}
	if e.scope != nil {
		e.scope.note(p.Obj)
	}
	if t, ok := val.(*sym.Term); ok && e.Sh.Cfg.UniqDepth > 0 && t.W >= 8 && (len(p.Path) == 0 || p.Path[len(p.Path)-1].Idx == nil) {
		// scalar variables and struct fields (not array elements, which hold data)
		val = e.uniq(t)
	}
	p.Obj.V = e.storeAt(p.Obj.V, p.Path, val, nil)
}

func (e *Exec) mergeVal(g *sym.Term, a, b Value) Value {
	switch x := a.(type) {
	case *sym.Term:
		return sym.Ite(g, x, b.(*sym.Term))
	case *BigV:
		return &BigV{V: sym.Ite(g, x.V, b.(*BigV).V), Bits: maxInt(x.Bits, b.(*BigV).Bits)}
	case *PtrV:
		if y, ok := b.(*PtrV); ok {
			return e.mergePtr(g, x, y)
		}
	case *StructV:
		y := b.(*StructV)
		n := &StructV{F: make([]Value, len(x.F))}
		for i := range x.F {
			n.F[i] = e.mergeVal(g, x.F[i], y.F[i])
		}
		return n
	case *ArrayV:
		y := b.(*ArrayV)
		if x.Sym == nil && y.Sym == nil {
			n := &ArrayV{N: x.N, E: make([]Value, len(x.E))}
			for i := range x.E {
				n.E[i] = e.mergeVal(g, x.E[i], y.E[i])
			}
			return n
		}
	}
	e.unsupported("conditional store of a non-scalar value (%T)", a)
	return nil
}

func scalarLeaf(v Value) bool {
	switch v.(type) {
	case *sym.Term, *BigV:
		return true
	}
	return false
}

func (e *Exec) storeAt(cur Value, path []PathElem, val Value, guard *sym.Term) Value {
	if len(path) == 0 {
		if guard == nil {
			return copyVal(val)
		}
		return e.mergeVal(guard, val, cur)
	}
	pe := path[0]
	if pe.Idx == nil {
		s := cur.(*StructV)
		s.F[pe.Field] = e.storeAt(s.F[pe.Field], path[1:], val, guard)
		return s
	}
	a := cur.(*ArrayV)
	if !pe.Idx.IsConst() {
		pe.Idx = e.uniq(pe.Idx)
	}
	if pe.Idx.IsConst() {
		k := int(pe.Idx.Val)
		if a.Sym != nil {
			nv := val.(*sym.Term)
			if guard != nil {
				nv = sym.Ite(guard, nv, sym.Select(a.Sym, sym.BV(uint64(k), 32)))
			}
			a.Sym = sym.Store(a.Sym, sym.BV(uint64(k), 32), nv)
			return a
		}
		a.E[k] = e.storeAt(a.E[k], path[1:], val, guard)
		return a
	}
	if a.Sym != nil || (a.N > e.Sh.Cfg.IteCap && a.isByteArray() && len(path) == 1) {
		a.toSym()
		nv := val.(*sym.Term)
		i32 := idx32(pe.Idx)
		if guard != nil {
			nv = sym.Ite(guard, nv, sym.Select(a.Sym, i32))
		}
		a.Sym = sym.Store(a.Sym, i32, nv)
		return a
	}
	if a.N <= e.Sh.Cfg.IteCap && scalarLeaf(val) {
		for k := 0; k < a.N; k++ {
			g := sym.Eq(pe.Idx, sym.BV(uint64(k), pe.Idx.W))
			if guard != nil {
				g = sym.And(guard, g)
			}
			a.E[k] = e.storeAt(a.E[k], path[1:], val, g)
		}
		return a
	}
	k := e.concretize(pe.Idx)
	a.E[k] = e.storeAt(a.E[k], path[1:], val, guard)
	return a
}

// slice helpers

func (e *Exec) sliceElemPtr(s *SliceV, idx *sym.Term) *PtrV {
	return s.Arr.extend(PathElem{Field: -1, Idx: sym.Add(s.Off, idx)})
}

func (e *Exec) newArray(elems []Value, desc string) *PtrV {
	return &PtrV{Obj: e.newObj(&ArrayV{E: elems, N: len(elems)}, desc)}
}

// constLen concretises a slice's length.
func (e *Exec) constInt(t *sym.Term) int {
	return int(int64(e.concretize(t)))
}

// sliceBytes reads a slice of scalars into a term list (length concretised).
func (e *Exec) sliceTerms(s *SliceV) []*sym.Term {
	n := e.constInt(s.Len)
	out := make([]*sym.Term, n)
	for i := 0; i < n; i++ {
		out[i] = asTerm(e.load(e.sliceElemPtr(s, i64(int64(i)))))
	}
	return out
}

func (e *Exec) makeSliceOf(vals []Value, desc string) *SliceV {
	p := e.newArray(vals, desc)
	n := i64(int64(len(vals)))
	return &SliceV{Arr: p, Off: i64(0), Len: n, Cap: n}
}

func (e *Exec) byteSlice(ts []*sym.Term, desc string) *SliceV {
	vals := make([]Value, len(ts))
	for i, t := range ts {
		vals[i] = t
	}
	return e.makeSliceOf(vals, desc)
}
