package gossa

import (
	"go/types"
	"hash/adler32"
	"hash/crc32"
	"strings"

	"verif/engine/sym"

	"golang.org/x/tools/go/ssa"
)

func concreteStr(e *Exec, v Value) string {
	s, ok := v.(*StrV).Concrete()
	if !ok {
		e.unsupported("harness label must be a constant string")
	}
	return s
}

// harnessIntrinsic handles the body-less v* functions declared by harness preludes.
func (e *Exec) harnessIntrinsic(fn *ssa.Function, args []Value) (Value, bool) {
	name := fn.Name()
	switch name {
	case "vU8":
		return e.nondet(concreteStr(e, args[0]), 8), true
	case "vU16":
		return e.nondet(concreteStr(e, args[0]), 16), true
	case "vU32":
		return e.nondet(concreteStr(e, args[0]), 32), true
	case "vU64":
		return e.nondet(concreteStr(e, args[0]), 64), true
	case "vI8":
		return e.nondet(concreteStr(e, args[0]), 8), true
	case "vI16":
		return e.nondet(concreteStr(e, args[0]), 16), true
	case "vI32":
		return e.nondet(concreteStr(e, args[0]), 32), true
	case "vI64", "vInt":
		return e.nondet(concreteStr(e, args[0]), 64), true
	case "vBool":
		return sym.Eq(e.nondet(concreteStr(e, args[0]), 1), sym.BV(1, 1)), true
	case "vAssume":
		e.assume(asTerm(args[0]))
		return nil, true
	case "vCheck":
		e.check(asTerm(args[0]), concreteStr(e, args[1]))
		return nil, true
	case "vWrapBegin":
		e.wrapLabel = concreteStr(e, args[0])
		e.wrapWide = nil
		return nil, true
	case "vWrapEnd":
		if e.wrapBounded > 0 {
			// the additions/multiplications whose operands' term bounds already exclude a wrap: one record for all
			e.res.Checks = append(e.res.Checks, CheckRec{Label: e.wrapLabel, Verdict: "discharged"})
		}
		e.wrapLabel, e.wrapBounded = "", 0
		return nil, true
	case "vNative":
		return sym.False, true
	case "vFail":
		e.check(sym.False, concreteStr(e, args[0]))
		return nil, true
	case "vReach":
		e.res.Reached = append(e.res.Reached, concreteStr(e, args[0]))
		return nil, true
	case "vAnd":
		return sym.And(asTerm(args[0]), asTerm(args[1])), true
	case "vOr":
		return sym.Or(asTerm(args[0]), asTerm(args[1])), true
	case "vNot":
		return sym.Not(asTerm(args[0])), true
	case "vImplies":
		return sym.Implies(asTerm(args[0]), asTerm(args[1])), true
	case "vIte":
		return sym.Ite(asTerm(args[0]), asTerm(args[1]), asTerm(args[2])), true
	case "vConc":
		return sym.BV(e.concretize(asTerm(args[0])), asTerm(args[0]).W), true
	case "vIsConst":
		t, ok := args[0].(*sym.Term)
		return sym.Bool(ok && t.IsConst()), true
	case "vBytes":
		n := e.constInt(asTerm(args[1]))
		nm := concreteStr(e, args[0])
		ts := make([]*sym.Term, n)
		for i := range ts {
			ts[i] = e.nondet(nm, 8)
		}
		return e.byteSlice(ts, "vBytes "+nm), true
	case "vFillArr":
		// vFillArr(name string, p *[N]byte): arbitrary contents as one SMT array variable
		p := args[1].(*PtrV)
		holder := e.loadPath(p.Obj.V, p.Path).(*ArrayV)
		holder.E = nil
		k := e.nondetCount["arr:"+concreteStr(e, args[0])]
		e.nondetCount["arr:"+concreteStr(e, args[0])] = k + 1
		holder.Sym = sym.ArrVar(concreteStr(e, args[0]) + "@" + itoa(int64(k)))
		return nil, true
	case "vBig":
		nm := concreteStr(e, args[0])
		k := e.constInt(asTerm(args[1]))
		v := e.nondet(nm, BigW)
		e.assume(fitsBits(v, k))
		return e.newBig(v, k), true
	case "vBigVal":
		// value of a *big.Int as int64 (model-level observation)
		return fromBig(e.bigLoad(args[0]).V), true
	case "vBigVal32":
		return sym.Resize(e.bigLoad(args[0]).V, 32, true), true
	case "vKnownActive":
		return sym.Bool(e.Sh.KnownActive[concreteStr(e, args[0])]), true
	case "vParam":
		v, ok := e.Sh.Params[concreteStr(e, args[0])]
		if !ok {
			e.unsupported("harness parameter %s not set", concreteStr(e, args[0]))
		}
		return i64(int64(v)), true
	case "vUF32":
		return e.uninterp(concreteStr(e, args[0]), 32, e.sliceTerms(args[1].(*SliceV))), true
	case "vUF32x":
		// uninterpreted function of a 32-bit state and a byte sequence
		st := asTerm(args[1])
		ts := e.sliceTerms(args[2].(*SliceV))
		all := append([]*sym.Term{sym.Extract(st, 31, 24), sym.Extract(st, 23, 16), sym.Extract(st, 15, 8), sym.Extract(st, 7, 0)}, ts...)
		return e.uninterp(concreteStr(e, args[0]), 32, all), true
	case "vNote":
		return nil, true
	case "vSameObj":
		// pointer identity, ignoring paths
		a, b := args[0].(*IfaceV), args[1].(*IfaceV)
		pa, ok1 := a.V.(*PtrV)
		pb, ok2 := b.V.(*PtrV)
		return sym.Bool(ok1 && ok2 && pa.Obj != nil && pa.Obj == pb.Obj), true
	case "vFresh":
		// was the pointed-to object allocated after the mark?
		p := args[0].(*IfaceV).V.(*PtrV)
		mark := int(asTerm(args[1]).Val)
		return sym.Bool(p.Obj != nil && p.Obj.ID > mark), true
	case "vMark":
		return i64(int64(e.nextObj)), true
	}
	return nil, false
}

func (e *Exec) externalFallback(fn *ssa.Function, args []Value, site ssa.Instruction) (Value, bool) {
	if strings.HasPrefix(fn.Name(), "v") && fn.Pkg != nil {
		if v, ok := e.harnessIntrinsic(fn, args); ok {
			return v, true
		}
	}
	return nil, false
}

func isErrorType(t types.Type) bool {
	return types.Identical(t, types.Universe.Lookup("error").Type())
}

func (e *Exec) opaqueError(tag string) Value {
	e.opaqueCtr++
	return &IfaceV{T: opaqueErrType, V: &OpaqueV{Tag: tag, ID: e.opaqueCtr}}
}

func (e *Exec) concreteBytes(v Value) ([]byte, bool) {
	s := v.(*SliceV)
	ts := e.sliceTerms(s)
	out := make([]byte, len(ts))
	for i, t := range ts {
		if !t.IsConst() {
			return nil, false
		}
		out[i] = byte(t.Val)
	}
	return out, true
}

// StdIntrinsics returns the table of modelled library functions.
func StdIntrinsics() map[string]Intrinsic {
	m := map[string]Intrinsic{}
	(&Exec{}).registerBig(m)
	m["fmt.Errorf"] = func(e *Exec, fr *frame, args []Value, site ssa.Instruction) Value {
		tag := "fmt.Errorf"
		if s, ok := args[0].(*StrV).Concrete(); ok {
			tag = s
		}
		return e.opaqueError(tag)
	}
	m["fmt.Sprintf"] = func(e *Exec, fr *frame, args []Value, site ssa.Instruction) Value {
		return &StrV{S: "<fmt.Sprintf>"}
	}
	m["fmt.Sprint"] = m["fmt.Sprintf"]
	m["fmt.Sprintln"] = m["fmt.Sprintf"]
	nop := func(e *Exec, fr *frame, args []Value, site ssa.Instruction) Value { return nil }
	for _, n := range []string{"(*sync.Mutex).Lock", "(*sync.Mutex).Unlock", "(*sync.RWMutex).Lock", "(*sync.RWMutex).Unlock", "(*sync.RWMutex).RLock", "(*sync.RWMutex).RUnlock"} {
		m[n] = nop
	}
	m["fmt.Fprintf"] = func(e *Exec, fr *frame, args []Value, site ssa.Instruction) Value {
		return TupleV{i64(0), nilIface}
	}
	m["fmt.Printf"] = m["fmt.Fprintf"]
	m["fmt.Println"] = m["fmt.Fprintf"]
	m["hash/crc32.ChecksumIEEE"] = func(e *Exec, fr *frame, args []Value, site ssa.Instruction) Value {
		b, ok := e.concreteBytes(args[0])
		if !ok {
			return e.uninterp("crc32", 32, e.sliceTerms(args[0].(*SliceV)))
		}
		// remember the concrete application so that a later symbolic one with equal bytes agrees
		r := sym.BV(uint64(crc32.ChecksumIEEE(b)), 32)
		e.noteUF("crc32", e.sliceTerms(args[0].(*SliceV)), r)
		return r
	}
	m["hash/adler32.Checksum"] = func(e *Exec, fr *frame, args []Value, site ssa.Instruction) Value {
		b, ok := e.concreteBytes(args[0])
		if !ok {
			return e.uninterp("adler32", 32, e.sliceTerms(args[0].(*SliceV)))
		}
		return sym.BV(uint64(adler32.Checksum(b)), 32)
	}
	m["math/bits.LeadingZeros64"] = func(e *Exec, fr *frame, args []Value, site ssa.Instruction) Value {
		return sym.Sub(sym.BV(64, 64), bitLenTermFull(asTerm(args[0])))
	}
	m["math/bits.Len64"] = func(e *Exec, fr *frame, args []Value, site ssa.Instruction) Value {
		return bitLenTermFull(asTerm(args[0]))
	}
	m["math/bits.Len32"] = func(e *Exec, fr *frame, args []Value, site ssa.Instruction) Value {
		return bitLenTermFull(sym.ZExt(asTerm(args[0]), 64))
	}
	m["math/bits.Len"] = m["math/bits.Len64"]
	m["math/bits.LeadingZeros32"] = func(e *Exec, fr *frame, args []Value, site ssa.Instruction) Value {
		return sym.Sub(sym.BV(32, 64), bitLenTermFull(sym.ZExt(asTerm(args[0]), 64)))
	}
	m["math/bits.TrailingZeros32"] = func(e *Exec, fr *frame, args []Value, site ssa.Instruction) Value {
		return tzTerm(asTerm(args[0]))
	}
	m["math/bits.TrailingZeros64"] = m["math/bits.TrailingZeros32"]
	m["bytes.IndexByte"] = func(e *Exec, fr *frame, args []Value, site ssa.Instruction) Value {
		ts := e.sliceTerms(args[0].(*SliceV))
		c := asTerm(args[1])
		res := sym.BV(^uint64(0), 64)
		for i := len(ts) - 1; i >= 0; i-- {
			res = sym.Ite(sym.Eq(ts[i], c), sym.BV(uint64(i), 64), res)
		}
		return res
	}
	m["internal/bytealg.IndexByte"] = m["bytes.IndexByte"]
	m["internal/bytealg.IndexByteString"] = func(e *Exec, fr *frame, args []Value, site ssa.Instruction) Value {
		s := args[0].(*StrV)
		c := asTerm(args[1])
		res := sym.BV(^uint64(0), 64)
		for i := s.Len() - 1; i >= 0; i-- {
			res = sym.Ite(sym.Eq(s.At(i), c), sym.BV(uint64(i), 64), res)
		}
		return res
	}
	m["strings.IndexByte"] = m["internal/bytealg.IndexByteString"]
	m["bytes.Equal"] = func(e *Exec, fr *frame, args []Value, site ssa.Instruction) Value {
		a := e.sliceTerms(args[0].(*SliceV))
		b := e.sliceTerms(args[1].(*SliceV))
		if len(a) != len(b) {
			return sym.False
		}
		r := sym.True
		for i := range a {
			r = sym.And(r, sym.Eq(a[i], b[i]))
		}
		return r
	}
	m["bytes.HasPrefix"] = func(e *Exec, fr *frame, args []Value, site ssa.Instruction) Value {
		a := e.sliceTerms(args[0].(*SliceV))
		b := e.sliceTerms(args[1].(*SliceV))
		if len(a) < len(b) {
			return sym.False
		}
		r := sym.True
		for i := range b {
			r = sym.And(r, sym.Eq(a[i], b[i]))
		}
		return r
	}
	m["bytes.Index"] = func(e *Exec, fr *frame, args []Value, site ssa.Instruction) Value {
		a := e.sliceTerms(args[0].(*SliceV))
		b := e.sliceTerms(args[1].(*SliceV))
		res := sym.BV(^uint64(0), 64)
		for i := len(a) - len(b); i >= 0; i-- {
			r := sym.True
			for j := range b {
				r = sym.And(r, sym.Eq(a[i+j], b[j]))
			}
			res = sym.Ite(r, sym.BV(uint64(i), 64), res)
		}
		return res
	}
	m["internal/bytealg.MakeNoZero"] = func(e *Exec, fr *frame, args []Value, site ssa.Instruction) Value {
		n := e.constInt(asTerm(args[0]))
		ts := make([]*sym.Term, n)
		z := sym.BV(0, 8)
		for i := range ts {
			ts[i] = z
		}
		return e.byteSlice(ts, "MakeNoZero")
	}
	m["runtime.KeepAlive"] = nop
	m["os.Exit"] = func(e *Exec, fr *frame, args []Value, site ssa.Instruction) Value {
		e.unsupported("os.Exit")
		return nil
	}
	return m
}

func bitLenTermFull(a *sym.Term) *sym.Term {
	res := sym.BV(0, 64)
	for k := 0; k < 64; k++ {
		res = sym.Ite(sym.UGE(a, sym.BV(uint64(1)<<uint(k), 64)), sym.BV(uint64(k+1), 64), res)
	}
	return res
}

func tzTerm(a *sym.Term) *sym.Term {
	w := a.W
	res := sym.BV(uint64(w), 64)
	for k := w - 1; k >= 0; k-- {
		bit := sym.Extract(a, k, k)
		res = sym.Ite(sym.Eq(bit, sym.BV(1, 1)), sym.BV(uint64(k), 64), res)
	}
	return res
}

// uninterp models a function of a byte sequence by a fresh variable that is
// functionally consistent: equal argument lists (same length) give equal results.
func (e *Exec) uninterp(name string, w int, args []*sym.Term) *sym.Term {
	k := e.nondetCount["uf:"+name]
	e.nondetCount["uf:"+name] = k + 1
	for _, prev := range e.ufApps[name] {
		if len(prev.args) != len(args) {
			continue
		}
		identical := true
		for i := range args {
			if !sym.Same(args[i], prev.args[i], 4) {
				identical = false
				break
			}
		}
		if identical {
			return prev.res
		}
	}
	v := sym.Var("uf!"+name+"!"+itoa(int64(k)), w)
	for _, prev := range e.ufApps[name] {
		if len(prev.args) != len(args) {
			continue
		}
		same := sym.True
		for i := range args {
			same = sym.And(same, sym.Eq(args[i], prev.args[i]))
		}
		e.addPC(sym.Implies(same, sym.Eq(v, prev.res)))
	}
	if e.ufApps == nil {
		e.ufApps = map[string][]ufApp{}
	}
	e.ufApps[name] = append(e.ufApps[name], ufApp{args, v})
	return v
}

func (e *Exec) noteUF(name string, args []*sym.Term, res *sym.Term) {
	if e.ufApps == nil {
		e.ufApps = map[string][]ufApp{}
	}
	e.ufApps[name] = append(e.ufApps[name], ufApp{args, res})
}

type ufApp struct {
	args []*sym.Term
	res  *sym.Term
}
