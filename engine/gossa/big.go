package gossa

import (
	"math/bits"

	"verif/engine/sym"

	"golang.org/x/tools/go/ssa"
)

// SMT model of math/big.Int: one signed 64-bit vector per Int. Every operation
// whose mathematical result might not fit raises a proof obligation; a path on
// which it can fail ends as "model bound exceeded" (reported, never hidden).

func bigSafe() int { return BigW - 2 }

func maxInt(a, b int) int {
	if a > b {
		return a
	}
	return b
}

func bitsOfConst(t *sym.Term) int {
	v := t.Signed()
	if v < 0 {
		v = -v
		if v < 0 {
			return 64
		}
	}
	return bits.Len64(uint64(v))
}

func (e *Exec) bigLoad(p Value) *BigV {
	pp := p.(*PtrV)
	if pp.Obj == nil {
		e.goPanic("nil dereference (big.Int)", nil)
	}
	v := e.loadPath(pp.Obj.V, pp.Path)
	b, ok := v.(*BigV)
	if !ok {
		e.unsupported("big.Int model: unexpected representation %T", v)
	}
	if b.Cell != nil {
		return &BigV{V: b.Cell.V, Bits: b.Cell.Bits, Poison: b.Poison}
	}
	if b.Poison {
		if e.inInit {
			e.poison = true
		} else {
			e.end(EndUnsupported, "use of a package-level big.Int whose value is outside the %d-bit model @ %s", BigW, e.stackString())
		}
	}
	return b
}

func (e *Exec) bigStore(p Value, t *sym.Term, nbits int) Value {
	if t.IsConst() {
		nbits = bitsOfConst(t)
	}
	if nbits > BigW {
		nbits = BigW
	}
	if e.poison {
		e.poison = false
		e.store(p.(*PtrV), &BigV{V: sym.BV(0, BigW), Bits: 1, Poison: true})
		return p
	}
	if pp := p.(*PtrV); pp.Obj != nil {
		if cur, ok := e.loadPath(pp.Obj.V, pp.Path).(*BigV); ok && cur.Cell != nil {
			// limbs shared with by-value copies: the in-place result is visible through all of them
			cur.Cell.V, cur.Cell.Bits = t, nbits
			e.store(pp, &BigV{V: t, Bits: nbits, Cell: cur.Cell})
			return p
		}
	}
	e.store(p.(*PtrV), &BigV{V: t, Bits: nbits})
	return p
}

func (e *Exec) bigOblige(c *sym.Term, what string) {
	if e.inInit && c.IsConst() && c.Val == 0 {
		// package initialisers may build constants beyond the model width (2^64-1, 1<<1000):
		// they become poisoned values, harmless unless a path under test reads them
		e.poison = true
		return
	}
	if !e.branch(c) {
		e.end(EndUnsupported, "big.Int model bound exceeded in %s @ %s", what, e.stackString())
	}
}

func (e *Exec) newBig(t *sym.Term, nbits int) *PtrV {
	if t.IsConst() {
		nbits = bitsOfConst(t)
	}
	if e.poison {
		e.poison = false
		return &PtrV{Obj: e.newObj(&BigV{V: sym.BV(0, BigW), Bits: 1, Poison: true}, "big.Int (poisoned)")}
	}
	return &PtrV{Obj: e.newObj(&BigV{V: t, Bits: nbits}, "big.Int")}
}

// toBig converts a Go integer term to the model width, obliging that it fits.
func (e *Exec) toBig(t *sym.Term, signed bool, what string) (*sym.Term, int) {
	if t.W == BigW {
		if !signed {
			if !t.IsConst() || t.Val>>uint(BigW-2) != 0 {
				e.bigOblige(sym.ULT(t, sym.BV(1<<uint(BigW-2), BigW)), what)
			}
			return t, BigW - 2
		}
		return t, BigW
	}
	if t.W < BigW {
		return sym.Resize(t, BigW, signed), t.W
	}
	lo := sym.Extract(t, BigW-1, 0)
	var back *sym.Term
	if signed {
		back = sym.SExt(lo, t.W)
	} else {
		back = sym.ZExt(sym.Extract(t, BigW-2, 0), t.W)
	}
	if t.IsConst() {
		if back.Val != t.Val {
			if e.inInit {
				e.poison = true
				return lo, BigW
			}
			e.end(EndUnsupported, "big.Int model bound exceeded in %s (constant %d) @ %s", what, t.Val, e.stackString())
		}
		return lo, BigW
	}
	e.bigOblige(sym.Eq(back, t), what)
	return lo, BigW
}

func fromBig(t *sym.Term) *sym.Term { return sym.Resize(t, 64, true) }

func absTerm(t *sym.Term) *sym.Term {
	return sym.Ite(sym.SLT(t, sym.BV(0, t.W)), sym.Neg(t), t)
}

// fitsBits: |t| < 2^k
func fitsBits(t *sym.Term, k int) *sym.Term {
	lim := sym.BV(uint64(1)<<uint(k), t.W)
	return sym.And(sym.SLT(t, lim), sym.SGT(t, sym.Neg(lim)))
}

func bitLenTerm(a *sym.Term) *sym.Term {
	// a is non-negative, model width; result int (64-bit)
	res := sym.BV(0, 64)
	for k := 0; k < a.W-1; k++ {
		res = sym.Ite(sym.UGE(a, sym.BV(uint64(1)<<uint(k), a.W)), sym.BV(uint64(k+1), 64), res)
	}
	return res
}

func (e *Exec) bigBin(name string, args []Value) Value {
	z, x, y := args[0], e.bigLoad(args[1]), e.bigLoad(args[2])
	a, b := x.V, y.V
	switch name {
	case "Add", "Sub":
		nb := maxInt(x.Bits, y.Bits) + 1
		var r *sym.Term
		if name == "Add" {
			r = sym.Add(a, b)
		} else {
			r = sym.Sub(a, b)
		}
		if nb > bigSafe() {
			e.bigOblige(sym.And(fitsBits(a, bigSafe()), fitsBits(b, bigSafe())), name)
			nb = BigW - 1
		}
		return e.bigStore(z, r, nb)
	case "Mul":
		nb := x.Bits + y.Bits
		if nb > bigSafe() {
			e.bigOblige(sym.And(fitsBits(a, BigW/2-1), fitsBits(b, BigW/2-1)), name)
			nb = bigSafe()
		}
		return e.bigStore(z, sym.Mul(a, b), nb)
	case "Quo", "Rem", "Div", "Mod":
		if !e.branch(sym.Ne(b, sym.BV(0, BigW))) {
			e.goPanic("division by zero (big.Int)", nil)
		}
		if maxInt(x.Bits, y.Bits) > bigSafe() {
			e.bigOblige(sym.And(fitsBits(a, bigSafe()), fitsBits(b, bigSafe())), name)
		}
		q, r := sym.SDiv(a, b), sym.SRem(a, b)
		switch name {
		case "Quo":
			return e.bigStore(z, q, x.Bits)
		case "Rem":
			return e.bigStore(z, r, maxInt(x.Bits, y.Bits))
		}
		// Euclidean: remainder in [0, |b|)
		neg := sym.SLT(r, sym.BV(0, BigW))
		bpos := sym.SGT(b, sym.BV(0, BigW))
		one := sym.BV(1, BigW)
		if name == "Mod" {
			m := sym.Ite(neg, sym.Ite(bpos, sym.Add(r, b), sym.Sub(r, b)), r)
			return e.bigStore(z, m, y.Bits)
		}
		d := sym.Ite(neg, sym.Ite(bpos, sym.Sub(q, one), sym.Add(q, one)), q)
		return e.bigStore(z, d, x.Bits+1)
	case "And":
		return e.bigStore(z, sym.BAnd(a, b), maxInt(x.Bits, y.Bits)+1)
	case "Or":
		return e.bigStore(z, sym.BOr(a, b), maxInt(x.Bits, y.Bits)+1)
	case "Xor":
		return e.bigStore(z, sym.BXor(a, b), maxInt(x.Bits, y.Bits)+1)
	case "AndNot":
		return e.bigStore(z, sym.BAnd(a, sym.BNot(b)), maxInt(x.Bits, y.Bits)+1)
	}
	e.unsupported("big.Int.%s", name)
	return nil
}

func (e *Exec) bigShift(name string, args []Value) Value {
	z, x, n64 := args[0], e.bigLoad(args[1]), asTerm(args[2])
	a := x.V
	top := uint64(BigW - 1)
	// shift count at model width, saturated at BigW-1
	n := sym.Ite(sym.UGE(n64, sym.BV(top, 64)), sym.BV(top, BigW), sym.Resize(n64, BigW, false))
	if name == "Rsh" {
		return e.bigStore(z, sym.AShr(a, n), x.Bits)
	}
	if n64.IsConst() && x.Bits+int(n64.Val) <= bigSafe() && n64.Val < top {
		return e.bigStore(z, sym.Shl(a, n), x.Bits+int(n64.Val))
	}
	// symbolic or large shift: the result must be representable
	r := sym.Shl(a, n)
	ok := sym.And(sym.ULT(n64, sym.BV(top-1, 64)), sym.And(sym.Eq(sym.AShr(r, n), a), fitsBits(r, bigSafe())))
	e.bigOblige(ok, "Lsh")
	return e.bigStore(z, r, bigSafe())
}

func (e *Exec) registerBig(m map[string]Intrinsic) {
	pfx := "(*math/big.Int)."
	for _, n := range []string{"Add", "Sub", "Mul", "Quo", "Rem", "Div", "Mod", "And", "Or", "Xor", "AndNot"} {
		name := n
		m[pfx+name] = func(e *Exec, fr *frame, args []Value, site ssa.Instruction) Value { return e.bigBin(name, args) }
	}
	for _, n := range []string{"Lsh", "Rsh"} {
		name := n
		m[pfx+name] = func(e *Exec, fr *frame, args []Value, site ssa.Instruction) Value { return e.bigShift(name, args) }
	}
	m["math/big.NewInt"] = func(e *Exec, fr *frame, args []Value, site ssa.Instruction) Value {
		t, nb := e.toBig(asTerm(args[0]), true, "NewInt")
		return e.newBig(t, nb)
	}
	m[pfx+"Set"] = func(e *Exec, fr *frame, args []Value, site ssa.Instruction) Value {
		x := e.bigLoad(args[1])
		return e.bigStore(args[0], x.V, x.Bits)
	}
	m[pfx+"SetInt64"] = func(e *Exec, fr *frame, args []Value, site ssa.Instruction) Value {
		t, nb := e.toBig(asTerm(args[1]), true, "SetInt64")
		return e.bigStore(args[0], t, nb)
	}
	m[pfx+"SetUint64"] = func(e *Exec, fr *frame, args []Value, site ssa.Instruction) Value {
		t, nb := e.toBig(asTerm(args[1]), false, "SetUint64")
		return e.bigStore(args[0], t, nb)
	}
	m[pfx+"Neg"] = func(e *Exec, fr *frame, args []Value, site ssa.Instruction) Value {
		x := e.bigLoad(args[1])
		if x.Bits > bigSafe() {
			e.bigOblige(fitsBits(x.V, bigSafe()), "Neg")
		}
		return e.bigStore(args[0], sym.Neg(x.V), x.Bits)
	}
	m[pfx+"Abs"] = func(e *Exec, fr *frame, args []Value, site ssa.Instruction) Value {
		x := e.bigLoad(args[1])
		if x.Bits > bigSafe() {
			e.bigOblige(fitsBits(x.V, bigSafe()), "Abs")
		}
		return e.bigStore(args[0], absTerm(x.V), x.Bits)
	}
	m[pfx+"Not"] = func(e *Exec, fr *frame, args []Value, site ssa.Instruction) Value {
		x := e.bigLoad(args[1])
		return e.bigStore(args[0], sym.BNot(x.V), x.Bits+1)
	}
	m[pfx+"Cmp"] = func(e *Exec, fr *frame, args []Value, site ssa.Instruction) Value {
		x, y := e.bigLoad(args[0]), e.bigLoad(args[1])
		return sym.Ite(sym.SLT(x.V, y.V), sym.BV(^uint64(0), 64), sym.Ite(sym.Eq(x.V, y.V), sym.BV(0, 64), sym.BV(1, 64)))
	}
	m[pfx+"CmpAbs"] = func(e *Exec, fr *frame, args []Value, site ssa.Instruction) Value {
		x, y := e.bigLoad(args[0]), e.bigLoad(args[1])
		a, b := absTerm(x.V), absTerm(y.V)
		return sym.Ite(sym.ULT(a, b), sym.BV(^uint64(0), 64), sym.Ite(sym.Eq(a, b), sym.BV(0, 64), sym.BV(1, 64)))
	}
	m[pfx+"Sign"] = func(e *Exec, fr *frame, args []Value, site ssa.Instruction) Value {
		x := e.bigLoad(args[0])
		z := sym.BV(0, BigW)
		return sym.Ite(sym.SLT(x.V, z), sym.BV(^uint64(0), 64), sym.Ite(sym.Eq(x.V, z), sym.BV(0, 64), sym.BV(1, 64)))
	}
	m[pfx+"BitLen"] = func(e *Exec, fr *frame, args []Value, site ssa.Instruction) Value {
		x := e.bigLoad(args[0])
		return bitLenTerm(absTerm(x.V))
	}
	m[pfx+"IsUint64"] = func(e *Exec, fr *frame, args []Value, site ssa.Instruction) Value {
		x := e.bigLoad(args[0])
		return sym.SGE(x.V, sym.BV(0, BigW))
	}
	m[pfx+"IsInt64"] = func(e *Exec, fr *frame, args []Value, site ssa.Instruction) Value {
		return sym.True
	}
	m[pfx+"Uint64"] = func(e *Exec, fr *frame, args []Value, site ssa.Instruction) Value {
		return fromBig(e.bigLoad(args[0]).V)
	}
	m[pfx+"Int64"] = func(e *Exec, fr *frame, args []Value, site ssa.Instruction) Value {
		return fromBig(e.bigLoad(args[0]).V)
	}
	m[pfx+"String"] = func(e *Exec, fr *frame, args []Value, site ssa.Instruction) Value {
		if p := args[0].(*PtrV); p.Obj != nil {
			if x := e.bigLoad(args[0]); x.V.IsConst() {
				return &StrV{S: itoa(x.V.Signed())}
			}
		}
		return &StrV{S: "<big>"}
	}
	m[pfx+"Exp"] = func(e *Exec, fr *frame, args []Value, site ssa.Instruction) Value {
		e.end(EndUnsupported, "big.Int.Exp is outside the model (shift amounts above 2^32)")
		return nil
	}
}

func itoa(v int64) string {
	neg := v < 0
	u := uint64(v)
	if neg {
		u = uint64(-v)
	}
	var b [24]byte
	i := len(b)
	for {
		i--
		b[i] = byte('0' + u%10)
		u /= 10
		if u == 0 {
			break
		}
	}
	if neg {
		i--
		b[i] = '-'
	}
	return string(b[i:])
}
