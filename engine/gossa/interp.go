package gossa

import (
	"fmt"
	"go/token"
	"go/types"
	"strings"

	"verif/engine/sym"

	"golang.org/x/tools/go/ssa"
)

func (e *Exec) callFunction(fn *ssa.Function, args []Value, free []Value, site ssa.Instruction) Value {
	if in, ok := e.Sh.Intrinsics[fn.String()]; ok {
		return in(e, e.cur, args, site)
	}
	if fn.Pkg != nil && fn.Name() == "init" && fn.Signature.Recv() == nil && fn.Parent() == nil && fn.Synthetic != "" && !e.Sh.RunInit[fn.Pkg] {
		return nil
	}
	if fn.Blocks == nil {
		if v, ok := e.externalFallback(fn, args, site); ok {
			return v
		}
		e.unsupported("call of body-less function %s", fn)
	}
	if e.Sh.Cfg.Replace != nil {
		if r, ok := e.Sh.Cfg.Replace[fn.String()]; ok && fn.Pkg != nil && (strings.HasPrefix(r, "!") || !e.allConcrete(args)) {
			r = strings.TrimPrefix(r, "!") // "!name": replace even when every argument is concrete
			if rf := fn.Pkg.Func(r); rf != nil {
				return e.callPlain(rf, args, nil, site)
			}
			if e.Sh.Target != nil {
				if rf := e.Sh.Target.Func(r); rf != nil {
					return e.callPlain(rf, args, nil, site)
				}
			}
			e.unsupported("replacement function %s not found", r)
		}
	}
	if e.scope == nil && e.Sh.Cfg.Merge != nil && e.Sh.Cfg.Merge[fn.String()] {
		return e.callMerged(fn, args, free, site)
	}
	return e.callPlain(fn, args, free, site)
}

func (e *Exec) callPlain(fn *ssa.Function, args []Value, free []Value, site ssa.Instruction) Value {
	if e.depth >= e.Sh.Cfg.MaxDepth {
		e.end(EndUnwind, "call depth %d exceeded in %s", e.Sh.Cfg.MaxDepth, fn)
	}
	info := e.Sh.info(fn)
	fr := &frame{fn: fn, info: info, regs: make([]Value, info.n), caller: e.cur, site: site}
	for i, p := range fn.Params {
		fr.regs[info.slots[p]] = args[i]
	}
	for i, p := range fn.FreeVars {
		fr.regs[info.slots[p]] = free[i]
	}
	e.depth++
	saved := e.cur
	e.cur = fr
	defer func() {
		e.depth--
		e.cur = saved
	}()
	e.runFrame(fr)
	return fr.result
}

// runFrame executes a frame to completion, running deferred calls on Go panics.
func (e *Exec) runFrame(fr *frame) {
	defer func() {
		if len(fr.defers) == 0 && fr.fn.Recover == nil {
			return
		}
		r := recover()
		if r == nil {
			return
		}
		gp, ok := r.(*goPanic)
		if !ok {
			panic(r)
		}
		fr.panicking = gp
		e.cur = fr
		e.runDefers(fr)
		if fr.panicking != nil {
			panic(fr.panicking)
		}
		// recovered: function returns via its Recover block (named results)
		if fr.fn.Recover != nil {
			fr.block = fr.fn.Recover
			fr.prev = nil
			e.runBlocks(fr)
		} else {
			fr.result = zeroResults(fr.fn)
		}
	}()
	fr.block = fr.fn.Blocks[0]
	e.runBlocks(fr)
}

func zeroResults(fn *ssa.Function) Value {
	res := fn.Signature.Results()
	switch res.Len() {
	case 0:
		return nil
	case 1:
		return zero(res.At(0).Type())
	}
	return zero(res)
}

func (e *Exec) runDefers(fr *frame) {
	for len(fr.defers) > 0 {
		d := fr.defers[len(fr.defers)-1]
		fr.defers = fr.defers[:len(fr.defers)-1]
		d()
	}
}

func (e *Exec) runBlocks(fr *frame) {
	for {
		b := fr.block
		// phis first, simultaneously
		nphi := 0
		for _, in := range b.Instrs {
			if _, ok := in.(*ssa.Phi); !ok {
				break
			}
			nphi++
		}
		if nphi > 0 {
			pi := -1
			for i, p := range b.Preds {
				if p == fr.prev {
					pi = i
					break
				}
			}
			vals := make([]Value, nphi)
			for i := 0; i < nphi; i++ {
				vals[i] = e.get(fr, b.Instrs[i].(*ssa.Phi).Edges[pi])
			}
			for i := 0; i < nphi; i++ {
				e.set(fr, b.Instrs[i].(*ssa.Phi), vals[i])
			}
		}
		e.steps += int64(len(b.Instrs))
		if e.steps > e.Sh.Cfg.MaxSteps {
			e.end(EndSteps, "step budget %d exceeded in %s", e.Sh.Cfg.MaxSteps, e.stackString())
		}
		var next *ssa.BasicBlock
		for _, in := range b.Instrs[nphi:] {
			switch x := in.(type) {
			case *ssa.Jump:
				next = b.Succs[0]
			case *ssa.If:
				c := asTerm(e.get(fr, x.Cond))
				if !c.IsConst() {
					if fr.ifCount == nil {
						fr.ifCount = map[ssa.Instruction]int{}
					}
					fr.ifCount[x]++
					if fr.ifCount[x] > e.Sh.Cfg.Unwind {
						e.end(EndUnwind, "unwind bound %d at %s @ %s", e.Sh.Cfg.Unwind, e.posOf(x.Cond.Pos()), e.stackString())
					}
				}
				if e.branch(c) {
					next = b.Succs[0]
				} else {
					next = b.Succs[1]
				}
			case *ssa.Return:
				switch len(x.Results) {
				case 0:
				case 1:
					fr.result = e.get(fr, x.Results[0])
				default:
					tv := make(TupleV, len(x.Results))
					for i, r := range x.Results {
						tv[i] = e.get(fr, r)
					}
					fr.result = tv
				}
				return
			case *ssa.Panic:
				e.goPanic("explicit", e.get(fr, x.X))
			case *ssa.RunDefers:
				e.runDefers(fr)
			default:
				e.exec(fr, in)
			}
		}
		if next == nil {
			panic("gossa: block without terminator in " + fr.fn.String())
		}
		fr.prev = b
		fr.block = next
	}
}

func (e *Exec) posOf(p token.Pos) string {
	pp := e.Sh.Prog.Fset.Position(p)
	if !pp.IsValid() {
		return "?"
	}
	return fmt.Sprintf("%s:%d", shortFile(pp.Filename), pp.Line)
}

func (e *Exec) exec(fr *frame, in ssa.Instruction) {
	switch x := in.(type) {
	case *ssa.DebugRef:
	case *ssa.Alloc:
		t := x.Type().(*types.Pointer).Elem()
		// Both heap and stack allocs get a fresh object each execution.
		e.set(fr, x, e.alloc(t, x.Comment))
	case *ssa.UnOp:
		e.set(fr, x, e.unop(fr, x))
	case *ssa.BinOp:
		e.set(fr, x, e.binop(x.Op, e.get(fr, x.X), e.get(fr, x.Y), x.X.Type(), x.Y.Type()))
	case *ssa.Store:
		e.store(e.get(fr, x.Addr).(*PtrV), e.get(fr, x.Val))
	case *ssa.FieldAddr:
		p := e.get(fr, x.X).(*PtrV)
		if p.Obj == nil {
			e.goPanic("nil dereference", nil)
		}
		e.set(fr, x, p.extend(PathElem{Field: x.Field}))
	case *ssa.Field:
		s := e.get(fr, x.X).(*StructV)
		e.set(fr, x, copyVal(s.F[x.Field]))
	case *ssa.IndexAddr:
		e.set(fr, x, e.indexAddr(fr, x))
	case *ssa.Index:
		e.set(fr, x, e.index(fr, x))
	case *ssa.Call:
		v := e.doCall(fr, &x.Call, x)
		e.set(fr, x, v)
	case *ssa.Defer:
		fnv, args := e.prepareCall(fr, &x.Call)
		site := x
		fr.defers = append(fr.defers, func() { e.invoke(fnv, args, site) })
	case *ssa.Extract:
		e.set(fr, x, e.get(fr, x.Tuple).(TupleV)[x.Index])
	case *ssa.Convert:
		e.set(fr, x, e.convert(e.get(fr, x.X), x.X.Type(), x.Type()))
	case *ssa.ChangeType:
		e.set(fr, x, e.get(fr, x.X))
	case *ssa.ChangeInterface:
		e.set(fr, x, e.get(fr, x.X))
	case *ssa.MakeInterface:
		e.set(fr, x, &IfaceV{T: x.X.Type(), V: copyVal(e.get(fr, x.X))})
	case *ssa.TypeAssert:
		e.set(fr, x, e.typeAssert(fr, x))
	case *ssa.MakeClosure:
		c := &ClosureV{Fn: x.Fn.(*ssa.Function)}
		for _, b := range x.Bindings {
			c.Free = append(c.Free, e.get(fr, b))
		}
		e.set(fr, x, c)
	case *ssa.MakeSlice:
		n := e.constInt(asTerm(e.get(fr, x.Len)))
		c := e.constInt(asTerm(e.get(fr, x.Cap)))
		if n < 0 || c < n {
			e.goPanic("makeslice: len out of range", nil)
		}
		if c > 1<<26 {
			e.unsupported("make of %d elements", c)
		}
		et := x.Type().Underlying().(*types.Slice).Elem()
		arr := zero(types.NewArray(et, int64(c)))
		p := &PtrV{Obj: e.newObj(arr, "makeslice")}
		e.set(fr, x, &SliceV{Arr: p, Off: i64(0), Len: i64(int64(n)), Cap: i64(int64(c))})
	case *ssa.Slice:
		e.set(fr, x, e.sliceOp(fr, x))
	case *ssa.MakeMap:
		e.set(fr, x, &MapV{M: map[interface{}]*mapEntry{}})
	case *ssa.MapUpdate:
		m := e.get(fr, x.Map).(*MapV)
		if e.scope != nil {
			e.unsupported("map update inside a merged call")
		}
		if m == nil {
			e.goPanic("assignment to entry in nil map", nil)
		}
		k := e.get(fr, x.Key)
		nk := e.mapKey(k)
		if _, ok := m.M[nk]; !ok {
			m.Keys = append(m.Keys, nk)
		}
		m.M[nk] = &mapEntry{K: k, V: copyVal(e.get(fr, x.Value))}
	case *ssa.Lookup:
		e.set(fr, x, e.lookup(fr, x))
	case *ssa.Range:
		switch v := e.get(fr, x.X).(type) {
		case *StrV:
			e.set(fr, x, &RangeIter{Str: v})
		case *MapV:
			it := &RangeIter{Map: v}
			if v != nil {
				it.Keys = append(it.Keys, v.Keys...)
			}
			e.set(fr, x, it)
		default:
			e.unsupported("range over %T", v)
		}
	case *ssa.Next:
		e.set(fr, x, e.next(fr, x))
	case *ssa.SliceToArrayPointer:
		s := e.get(fr, x.X).(*SliceV)
		n := x.Type().(*types.Pointer).Elem().Underlying().(*types.Array).Len()
		if !e.branch(sym.SGE(s.Len, i64(n))) {
			e.goPanic("slice to array pointer: length too short", nil)
		}
		off := e.constInt(s.Off)
		if s.Arr.Obj == nil {
			e.set(fr, x, nilPtr)
			break
		}
		holder := e.loadPath(s.Arr.Obj.V, s.Arr.Path).(*ArrayV)
		if off == 0 && int64(holder.N) == n {
			e.set(fr, x, s.Arr)
		} else {
			e.unsupported("slice-to-array-pointer into the middle of an array")
		}
	case *ssa.Go, *ssa.Send, *ssa.Select, *ssa.MakeChan:
		e.unsupported("concurrency instruction %T", in)
	case *ssa.MultiConvert:
		e.unsupported("MultiConvert")
	default:
		e.unsupported("instruction %T", in)
	}
}

// ---- calls ----

func (e *Exec) prepareCall(fr *frame, c *ssa.CallCommon) (Value, []Value) {
	var args []Value
	var fnv Value
	if c.IsInvoke() {
		recv := e.get(fr, c.Value).(*IfaceV)
		if recv.T == nil {
			e.goPanic("nil dereference", nil)
		}
		if op, ok := recv.V.(*OpaqueV); ok {
			fnv = &opaqueMethod{recv: op, name: c.Method.Name()}
		} else {
			sel := e.Sh.Prog.MethodSets.MethodSet(recv.T).Lookup(c.Method.Pkg(), c.Method.Name())
			if sel == nil {
				e.unsupported("method %s not found on %s", c.Method.Name(), recv.T)
			}
			m := e.Sh.Prog.MethodValue(sel)
			if m == nil {
				e.unsupported("abstract method %s on %s", c.Method.Name(), recv.T)
			}
			fnv = m
			args = append(args, copyVal(recv.V))
		}
	} else {
		fnv = e.get(fr, c.Value)
	}
	for _, a := range c.Args {
		args = append(args, copyVal(e.get(fr, a)))
	}
	return fnv, args
}

type opaqueMethod struct {
	recv *OpaqueV
	name string
}

func (e *Exec) doCall(fr *frame, c *ssa.CallCommon, site ssa.Instruction) Value {
	fnv, args := e.prepareCall(fr, c)
	return e.invoke(fnv, args, site)
}

func (e *Exec) invoke(fnv Value, args []Value, site ssa.Instruction) Value {
	switch f := fnv.(type) {
	case *ssa.Function:
		return e.callFunction(f, args, nil, site)
	case *ClosureV:
		if f == nil {
			e.goPanic("nil dereference", nil)
		}
		return e.callFunction(f.Fn, args, f.Free, site)
	case *ssa.Builtin:
		return e.builtin(f, args, site)
	case *opaqueMethod:
		if f.name == "Error" || f.name == "String" {
			return &StrV{S: "<opaque:" + f.recv.Tag + ">"}
		}
		e.unsupported("method %s on opaque value", f.name)
	}
	e.unsupported("call of %T", fnv)
	return nil
}

func (e *Exec) builtin(b *ssa.Builtin, args []Value, site ssa.Instruction) Value {
	switch b.Name() {
	case "len":
		switch x := args[0].(type) {
		case *SliceV:
			return x.Len
		case *StrV:
			return i64(int64(x.Len()))
		case *MapV:
			if x == nil {
				return i64(0)
			}
			return i64(int64(len(x.M)))
		case *ArrayV:
			return i64(int64(x.N))
		case *PtrV: // pointer to array
			call := site.(ssa.CallInstruction).Common()
			t := call.Args[0].Type().Underlying().(*types.Pointer).Elem().Underlying().(*types.Array)
			return i64(t.Len())
		}
	case "cap":
		switch x := args[0].(type) {
		case *SliceV:
			return x.Cap
		case *ArrayV:
			return i64(int64(x.N))
		case *PtrV:
			call := site.(ssa.CallInstruction).Common()
			t := call.Args[0].Type().Underlying().(*types.Pointer).Elem().Underlying().(*types.Array)
			return i64(t.Len())
		}
	case "append":
		return e.appendOp(args, site)
	case "copy":
		return e.copyOp(args)
	case "panic":
		e.goPanic("explicit", args[0])
	case "recover":
		// recover is only effective when called directly by a deferred function
		if e.cur != nil && e.cur.caller != nil && e.cur.caller.panicking != nil {
			p := e.cur.caller.panicking
			e.cur.caller.panicking = nil
			e.cur.caller.recovered = true
			if iv, ok := p.Val.(*IfaceV); ok {
				return iv
			}
			return &IfaceV{T: opaqueErrType, V: &OpaqueV{Tag: "runtime error: " + p.Kind}}
		}
		return nilIface
	case "print", "println":
		return nil
	case "delete":
		m := args[0].(*MapV)
		if m != nil {
			k := e.mapKey(args[1])
			if _, ok := m.M[k]; ok {
				delete(m.M, k)
				for i, kk := range m.Keys {
					if kk == k {
						m.Keys = append(m.Keys[:i:i], m.Keys[i+1:]...)
						break
					}
				}
			}
		}
		return nil
	case "min", "max":
		call := site.(ssa.CallInstruction).Common()
		t := call.Args[0].Type()
		r := args[0]
		for _, a := range args[1:] {
			op := token.LSS
			if b.Name() == "max" {
				op = token.GTR
			}
			c := asTerm(e.binop(op, a, r, t, t))
			r = sym.Ite(c, asTerm(a), asTerm(r))
		}
		return r
	case "ssa:wrapnilchk":
		p := args[0].(*PtrV)
		if p.Obj == nil {
			e.goPanic("nil dereference (value method via nil pointer)", nil)
		}
		return p
	}
	e.unsupported("builtin %s(%T)", b.Name(), args[0])
	return nil
}

func (e *Exec) appendOp(args []Value, site ssa.Instruction) Value {
	s := args[0].(*SliceV)
	var add []Value
	switch y := args[1].(type) {
	case *SliceV:
		n := e.constInt(y.Len)
		for i := 0; i < n; i++ {
			add = append(add, e.load(e.sliceElemPtr(y, i64(int64(i)))))
		}
	case *StrV:
		for i := 0; i < y.Len(); i++ {
			add = append(add, y.At(i))
		}
	default:
		e.unsupported("append of %T", y)
	}
	if len(add) == 0 {
		return s
	}
	ln := e.constInt(s.Len)
	cp := e.constInt(s.Cap)
	if ln+len(add) <= cp {
		for i, v := range add {
			e.store(e.sliceElemPtr(s, i64(int64(ln+i))), v)
		}
		return &SliceV{Arr: s.Arr, Off: s.Off, Len: i64(int64(ln + len(add))), Cap: s.Cap}
	}
	need := ln + len(add)
	newcap := cp
	if need > 2*cp {
		newcap = need
	} else if cp < 256 {
		newcap = 2 * cp
	} else {
		for newcap < need {
			newcap += (newcap + 3*256) / 4
		}
	}
	if newcap < need {
		newcap = need
	}
	call := site.(ssa.CallInstruction).Common()
	et := call.Args[0].Type().Underlying().(*types.Slice).Elem()
	// round small byte capacities up to the allocator's size classes, as the runtime does
	if w, _, ok := intInfo(et); ok && w == 8 {
		newcap = roundupsize(newcap)
	}
	elems := make([]Value, newcap)
	for i := 0; i < ln; i++ {
		elems[i] = e.load(e.sliceElemPtr(s, i64(int64(i))))
	}
	for i, v := range add {
		elems[ln+i] = copyVal(v)
	}
	var z Value
	for i := need; i < newcap; i++ {
		if z == nil || !scalarLeaf(z) {
			z = zero(et)
		}
		elems[i] = z
	}
	p := e.newArray(elems, "append")
	return &SliceV{Arr: p, Off: i64(0), Len: i64(int64(need)), Cap: i64(int64(newcap))}
}

var sizeClasses = []int{8, 16, 24, 32, 48, 64, 80, 96, 112, 128, 144, 160, 176, 192, 208, 224, 240, 256, 288, 320, 352, 384, 416, 448, 480, 512, 576, 640, 704, 768, 896, 1024, 1152, 1280, 1408, 1536, 1792, 2048, 2304, 2688, 3072, 3200, 3456, 4096, 4864, 5376, 6144, 6528, 6784, 6912, 8192, 9472, 9728, 10240, 10880, 12288, 13568, 14336, 16384, 18432, 19072, 20480, 21760, 24576, 27264, 28672, 32768}

func roundupsize(n int) int {
	for _, c := range sizeClasses {
		if n <= c {
			return c
		}
	}
	return (n + 8191) &^ 8191
}

func (e *Exec) copyOp(args []Value) Value {
	dst := args[0].(*SliceV)
	var srcLen *sym.Term
	var get func(i int) Value
	switch y := args[1].(type) {
	case *SliceV:
		srcLen = y.Len
		get = func(i int) Value { return e.load(e.sliceElemPtr(y, i64(int64(i)))) }
	case *StrV:
		srcLen = i64(int64(y.Len()))
		get = func(i int) Value { return y.At(i) }
	}
	n := sym.Ite(sym.SLT(dst.Len, srcLen), dst.Len, srcLen)
	cn := e.constInt(n)
	// memmove semantics: read everything first
	tmp := make([]Value, cn)
	for i := 0; i < cn; i++ {
		tmp[i] = get(i)
	}
	for i := 0; i < cn; i++ {
		e.store(e.sliceElemPtr(dst, i64(int64(i))), tmp[i])
	}
	return i64(int64(cn))
}

// ---- indexing ----

func (e *Exec) idx64(v Value, t types.Type) *sym.Term {
	x := asTerm(v)
	_, signed, _ := intInfo(t)
	return sym.Resize(x, 64, signed)
}

func (e *Exec) boundsCheck(idx, n *sym.Term, what string) {
	if !e.branch(sym.ULT(idx, n)) {
		e.goPanic(what+" out of range", nil)
	}
}

func (e *Exec) indexAddr(fr *frame, x *ssa.IndexAddr) Value {
	idx := e.idx64(e.get(fr, x.Index), x.Index.Type())
	switch b := e.get(fr, x.X).(type) {
	case *SliceV:
		e.boundsCheck(idx, b.Len, "index")
		return e.sliceElemPtr(b, idx)
	case *PtrV:
		if b.Obj == nil {
			e.goPanic("nil dereference", nil)
		}
		n := x.X.Type().Underlying().(*types.Pointer).Elem().Underlying().(*types.Array).Len()
		e.boundsCheck(idx, i64(n), "index")
		return b.extend(PathElem{Field: -1, Idx: idx})
	}
	e.unsupported("IndexAddr on %T", e.get(fr, x.X))
	return nil
}

func (e *Exec) index(fr *frame, x *ssa.Index) Value {
	idx := e.idx64(e.get(fr, x.Index), x.Index.Type())
	switch b := e.get(fr, x.X).(type) {
	case *ArrayV:
		e.boundsCheck(idx, i64(int64(b.N)), "index")
		return copyVal(e.loadPath(b, []PathElem{{Field: -1, Idx: idx}}))
	case *StrV:
		return e.strIndex(b, idx)
	}
	e.unsupported("Index on %T", e.get(fr, x.X))
	return nil
}

func (e *Exec) strIndex(s *StrV, idx *sym.Term) Value {
	e.boundsCheck(idx, i64(int64(s.Len())), "string index")
	if idx.IsConst() {
		return s.At(int(idx.Val))
	}
	n := s.Len()
	res := s.At(n - 1)
	for k := n - 2; k >= 0; k-- {
		res = sym.Ite(sym.Eq(idx, i64(int64(k))), s.At(k), res)
	}
	return res
}

func (e *Exec) sliceOp(fr *frame, x *ssa.Slice) Value {
	base := e.get(fr, x.X)
	var lo, hi, max *sym.Term
	if x.Low != nil {
		lo = e.idx64(e.get(fr, x.Low), x.Low.Type())
	} else {
		lo = i64(0)
	}
	if x.High != nil {
		hi = e.idx64(e.get(fr, x.High), x.High.Type())
	}
	if x.Max != nil {
		max = e.idx64(e.get(fr, x.Max), x.Max.Type())
	}
	switch b := base.(type) {
	case *StrV:
		n := b.Len()
		if hi == nil {
			hi = i64(int64(n))
		}
		if !e.branch(sym.And(sym.ULE(lo, hi), sym.ULE(hi, i64(int64(n))))) {
			e.goPanic("slice bounds out of range", nil)
		}
		l, h := e.constInt(lo), e.constInt(hi)
		if b.Sym {
			return &StrV{Sym: true, B: b.B[l:h]}
		}
		return &StrV{S: b.S[l:h]}
	case *SliceV:
		if hi == nil {
			hi = b.Len
		}
		if max == nil {
			max = b.Cap
		}
		ok := sym.And(sym.ULE(lo, hi), sym.And(sym.ULE(hi, max), sym.ULE(max, b.Cap)))
		if !e.branch(ok) {
			e.goPanic("slice bounds out of range", nil)
		}
		if b.Arr.Obj == nil {
			return b // nil slice sliced [0:0]
		}
		return &SliceV{Arr: b.Arr, Off: sym.Add(b.Off, lo), Len: sym.Sub(hi, lo), Cap: sym.Sub(max, lo)}
	case *PtrV:
		if b.Obj == nil {
			e.goPanic("nil dereference", nil)
		}
		n := i64(x.X.Type().Underlying().(*types.Pointer).Elem().Underlying().(*types.Array).Len())
		if hi == nil {
			hi = n
		}
		if max == nil {
			max = n
		}
		ok := sym.And(sym.ULE(lo, hi), sym.And(sym.ULE(hi, max), sym.ULE(max, n)))
		if !e.branch(ok) {
			e.goPanic("slice bounds out of range", nil)
		}
		return &SliceV{Arr: b, Off: lo, Len: sym.Sub(hi, lo), Cap: sym.Sub(max, lo)}
	}
	e.unsupported("Slice on %T", base)
	return nil
}

// ---- maps ----

func (e *Exec) mapKey(k Value) interface{} {
	switch x := k.(type) {
	case *sym.Term:
		if !x.IsConst() {
			v := e.concretize(x)
			return [2]uint64{v, uint64(x.W)}
		}
		return [2]uint64{x.Val, uint64(x.W)}
	case *StrV:
		s, ok := x.Concrete()
		if !ok {
			e.unsupported("symbolic string as map key")
		}
		return s
	case *PtrV:
		if len(x.Path) == 0 {
			return x.Obj
		}
		return fmt.Sprintf("%p%v", x.Obj, x.Path)
	case *IfaceV:
		if x.T == nil {
			return "nil-iface"
		}
		return fmt.Sprintf("%s|%v", x.T, e.mapKey(x.V))
	case *StructV:
		s := "{"
		for _, f := range x.F {
			s += fmt.Sprintf("%v,", e.mapKey(f))
		}
		return s + "}"
	case *ArrayV:
		s := "["
		for i := 0; i < x.N; i++ {
			s += fmt.Sprintf("%v,", e.mapKey(x.getConst(i)))
		}
		return s + "]"
	case *OpaqueV:
		return x
	}
	e.unsupported("map key of %T", k)
	return nil
}

func (e *Exec) lookup(fr *frame, x *ssa.Lookup) Value {
	switch m := e.get(fr, x.X).(type) {
	case *StrV:
		return e.strIndex(m, e.idx64(e.get(fr, x.Index), x.Index.Type()))
	case *MapV:
		vt := x.X.Type().Underlying().(*types.Map).Elem()
		var v Value
		ok := false
		if m != nil {
			if en, found := m.M[e.mapKey(e.get(fr, x.Index))]; found {
				v, ok = copyVal(en.V), true
			}
		}
		if !ok {
			v = zero(vt)
		}
		if x.CommaOk {
			return TupleV{v, sym.Bool(ok)}
		}
		return v
	}
	e.unsupported("Lookup on %T", e.get(fr, x.X))
	return nil
}

func (e *Exec) next(fr *frame, x *ssa.Next) Value {
	it := e.get(fr, x.Iter).(*RangeIter)
	if x.IsString {
		s := it.Str
		if it.I >= s.Len() {
			return TupleV{sym.False, i64(0), sym.BV(0, 32)}
		}
		b := s.At(it.I)
		if !b.IsConst() {
			// treat bytes as ASCII unless proven otherwise
			if !e.branch(sym.ULT(b, u8(0x80))) {
				e.unsupported("range over symbolic non-ASCII string")
			}
			i := it.I
			it.I++
			return TupleV{sym.True, i64(int64(i)), sym.ZExt(b, 32)}
		}
		str, _ := (&StrV{Sym: s.Sym, S: s.S, B: s.B}).concretePrefix(it.I)
		r, size := decodeRune(str)
		i := it.I
		it.I += size
		return TupleV{sym.True, i64(int64(i)), sym.BV(uint64(r), 32)}
	}
	tt := x.Type().(*types.Tuple)
	for it.I < len(it.Keys) {
		k := it.Keys[it.I]
		it.I++
		if en, ok := it.Map.M[k]; ok {
			return TupleV{sym.True, copyVal(en.K), copyVal(en.V)}
		}
	}
	return TupleV{sym.False, zeroOrNil(tt.At(1).Type()), zeroOrNil(tt.At(2).Type())}
}

func zeroOrNil(t types.Type) Value {
	if b, ok := t.(*types.Basic); ok && b.Kind() == types.Invalid {
		return sym.False
	}
	return zero(t)
}

func (s *StrV) concretePrefix(from int) (string, bool) {
	if !s.Sym {
		return s.S[from:], true
	}
	var b []byte
	for i := from; i < len(s.B) && i < from+4; i++ {
		if !s.B[i].IsConst() {
			break
		}
		b = append(b, byte(s.B[i].Val))
	}
	return string(b), true
}

func decodeRune(s string) (rune, int) {
	for _, r := range s {
		n := len(string(r))
		if r == 0xFFFD {
			// invalid encoding decodes to RuneError with width 1 (or a real U+FFFD of width 3)
			if len(s) >= 3 && s[:3] == "�" {
				return r, 3
			}
			return r, 1
		}
		return r, n
	}
	return 0xFFFD, 1
}

// ---- type assertions ----

func (e *Exec) typeAssert(fr *frame, x *ssa.TypeAssert) Value {
	iv := e.get(fr, x.X).(*IfaceV)
	ok := false
	if iv.T != nil {
		if it, isI := x.AssertedType.Underlying().(*types.Interface); isI {
			ok = types.Implements(iv.T, it)
			if !ok {
				if _, isPtr := iv.T.(*types.Pointer); !isPtr {
					// value types: method set of T only
				}
			}
			if iv.T == opaqueErrType {
				ok = it.NumMethods() == 0 || (it.NumMethods() == 1 && it.Method(0).Name() == "Error")
			}
		} else {
			ok = types.Identical(iv.T, x.AssertedType)
		}
	}
	_, assertedIsIface := x.AssertedType.Underlying().(*types.Interface)
	var v Value
	if ok {
		if assertedIsIface {
			v = iv
		} else {
			v = copyVal(iv.V)
		}
	}
	if x.CommaOk {
		if !ok {
			v = zero(x.AssertedType)
		}
		return TupleV{v, sym.Bool(ok)}
	}
	if !ok {
		e.goPanic("interface conversion", nil)
	}
	return v
}

// allConcrete: every argument is a constant scalar or a slice of constants.
// (Replaced functions run for real on concrete inputs.)
func (e *Exec) allConcrete(args []Value) bool {
	for _, a := range args {
		switch x := a.(type) {
		case *sym.Term:
			if !x.IsConst() {
				return false
			}
		case *SliceV:
			if !x.Len.IsConst() || !x.Off.IsConst() {
				return false
			}
			n := int(x.Len.Val)
			for i := 0; i < n; i++ {
				t, ok := e.load(e.sliceElemPtr(x, i64(int64(i)))).(*sym.Term)
				if !ok || !t.IsConst() {
					return false
				}
			}
		default:
			return false
		}
	}
	return true
}
