package gossa

import (
	"fmt"
	"os"
	"runtime/debug"
	"sort"
	"strings"
	"sync"
	"time"

	"verif/engine/sym"

	"golang.org/x/tools/go/packages"
	"golang.org/x/tools/go/ssa"
	"golang.org/x/tools/go/ssa/ssautil"
)

// Loaded is an SSA program for one target package with harness overlays.
type Loaded struct {
	Prog *ssa.Program
	Pkg  *ssa.Package
	Sh   *Shared
	Errs []string
}

const WuffsModule = "github.com/google/wuffs"

var defaultInitPkgs = map[string]bool{
	"io": true, "bytes": true, "strings": true, "strconv": true, "unicode/utf8": true,
	"math/bits": true, "sort": true, "encoding/binary": true, "bufio": true, "errors": false,
}

// Load type-checks pkgPath inside repoDir with the given overlay files
// (absolute virtual path -> contents) and builds SSA for it and its dependencies.
func Load(repoDir, pkgPath string, overlay map[string][]byte) (*Loaded, error) {
	cfg := &packages.Config{
		Mode:    packages.LoadAllSyntax,
		Dir:     repoDir,
		Overlay: overlay,
		Env:     append(os.Environ(), "GOFLAGS=-mod=readonly", "GOPROXY=off", "GOTOOLCHAIN=local", "GO111MODULE=on", "CGO_ENABLED=1"),
	}
	pkgs, err := packages.Load(cfg, pkgPath)
	if err != nil {
		return nil, err
	}
	if len(pkgs) != 1 {
		return nil, fmt.Errorf("expected one package for %s, got %d", pkgPath, len(pkgs))
	}
	l := &Loaded{}
	for _, e := range pkgs[0].Errors {
		l.Errs = append(l.Errs, e.Error())
	}
	if len(l.Errs) > 0 {
		return l, fmt.Errorf("package %s does not type-check with the harness overlay: %s", pkgPath, strings.Join(l.Errs, "; "))
	}
	prog, spkgs := ssautil.AllPackages(pkgs, ssa.InstantiateGenerics)
	prog.Build()
	l.Prog = prog
	l.Pkg = spkgs[0]
	l.Sh = &Shared{
		Prog:        prog,
		Cfg:         DefaultConfig(),
		Intrinsics:  StdIntrinsics(),
		RunInit:     map[*ssa.Package]bool{},
		tmplGlobals: map[*ssa.Global]*Obj{},
		KnownActive: map[string]bool{},
		InitPkgs:    defaultInitPkgs,
		Module:      WuffsModule,
	}
	for _, p := range prog.AllPackages() {
		path := p.Pkg.Path()
		if strings.HasPrefix(path, WuffsModule) || l.Sh.InitPkgs[path] {
			l.Sh.RunInit[p] = true
		}
	}
	return l, nil
}

// RunInits executes the target package's init chain concretely and records
// the resulting globals as the template every path starts from.
func (l *Loaded) RunInits() error {
	s, err := sym.NewSolver(sym.Primary())
	if err != nil {
		return err
	}
	defer s.Close()
	e := l.Sh.newExec(s)
	e.inInit = true
	e.res = &PathResult{}
	var perr error
	func() {
		defer func() {
			if r := recover(); r != nil {
				switch x := r.(type) {
				case pathEnd:
					perr = fmt.Errorf("init: %s: %s", x.Kind, x.Msg)
				case *goPanic:
					perr = fmt.Errorf("init: panic %s @ %s", x.Kind, x.Stack)
				default:
					perr = fmt.Errorf("init: internal error %v\n%s", r, debug.Stack())
				}
			}
		}()
		e.callFunction(l.Pkg.Func("init"), nil, nil, nil)
	}()
	if perr != nil {
		return perr
	}
	l.Sh.tmplGlobals = e.globals
	return nil
}

func (sh *Shared) newExec(s *sym.Solver) *Exec {
	return &Exec{
		Sh: sh, S: s,
		globals:     map[*ssa.Global]*Obj{},
		cloneMemo:   map[*Obj]*Obj{},
		nondetCount: map[string]int{},
	}
}

// HarnessResult aggregates all paths of one harness function.
type HarnessResult struct {
	Name        string
	Paths       int
	Ends        map[string]int
	Checks      map[string]map[string]int // label -> verdict -> count
	Violations  []Violation
	Unknowns    []string
	Reached     map[string]int
	ReachModels map[string][]NondetVal
	Incomplete  []string // unwind / steps / unsupported / concretize records
	IncompleteM [][]NondetVal
	Queries     int
	Steps       int64
	Wall        float64
	Funcs       map[string]int // functions entered -> instruction count
	Scripts     []string
	Internal    []string
}

type Violation struct {
	Label string
	Kind  string // "check", "panic", "hang"
	Model []NondetVal
	Stack string
}

// RunHarness explores every path of the named harness function.
func (l *Loaded) RunHarness(name string, cfg Config, params map[string]int, workers int, deadline time.Time) *HarnessResult {
	fn := l.Pkg.Func(name)
	hr := &HarnessResult{Name: name, Ends: map[string]int{}, Checks: map[string]map[string]int{}, Reached: map[string]int{}, ReachModels: map[string][]NondetVal{}, Funcs: map[string]int{}}
	if fn == nil {
		hr.Internal = append(hr.Internal, "harness function not found: "+name)
		return hr
	}
	sh := *l.Sh // copy with per-harness config; sync.Map fields are copied by value but unused concurrently before this point
	shp := &Shared{Prog: sh.Prog, Cfg: cfg, Intrinsics: sh.Intrinsics, KeepScript: sh.KeepScript, RunInit: sh.RunInit,
		tmplGlobals: sh.tmplGlobals, KnownActive: sh.KnownActive, InitPkgs: sh.InitPkgs, Module: sh.Module, Params: params, Deadline: deadline, Target: l.Pkg}
	t0 := time.Now()
	var mu sync.Mutex
	cond := sync.NewCond(&mu)
	queue := []Work{{}}
	active := 0
	seenViol := map[string]bool{}
	var wg sync.WaitGroup
	for w := 0; w < workers; w++ {
		wg.Add(1)
		go func() {
			defer wg.Done()
			s, err := sym.NewSolver(sym.Primary())
			if err != nil {
				mu.Lock()
				hr.Internal = append(hr.Internal, "cannot start solver: "+err.Error())
				mu.Unlock()
				return
			}
			defer s.Close()
			for {
				mu.Lock()
				for len(queue) == 0 && active > 0 {
					cond.Wait()
				}
				if len(queue) == 0 && active == 0 {
					mu.Unlock()
					cond.Broadcast()
					return
				}
				work := queue[len(queue)-1]
				queue = queue[:len(queue)-1]
				active++
				mu.Unlock()

				var pr *PathResult
				var alts []Work
				var internal string
				if time.Now().After(deadline) {
					pr = &PathResult{End: pathEnd{EndSteps, "wall-clock deadline reached before this path was explored"}}
				} else {
					pr, alts, internal = shp.runPath(s, fn, work)
				}

				mu.Lock()
				active--
				queue = append(queue, alts...)
				hr.Paths++
				hr.Queries += pr.Queries
				hr.Steps += pr.Steps
				hr.Ends[pr.End.Kind.String()]++
				if internal != "" {
					hr.Internal = append(hr.Internal, internal)
				}
				for _, c := range pr.Checks {
					if hr.Checks[c.Label] == nil {
						hr.Checks[c.Label] = map[string]int{}
					}
					hr.Checks[c.Label][c.Verdict]++
					switch c.Verdict {
					case "violated":
						key := "check|" + c.Label
						if !seenViol[key] {
							seenViol[key] = true
							hr.Violations = append(hr.Violations, Violation{Label: c.Label, Kind: "check", Model: c.Model, Stack: c.Stack})
						}
					case "unknown":
						hr.Unknowns = append(hr.Unknowns, c.Label)
					}
					if c.Script != "" && c.Verdict == "discharged" && len(hr.Scripts) < 64 {
						hr.Scripts = append(hr.Scripts, c.Script)
					}
				}
				for _, r := range pr.Reached {
					hr.Reached[r]++
					if _, ok := hr.ReachModels[r]; !ok && pr.Model != nil {
						hr.ReachModels[r] = pr.Model
					}
				}
				switch pr.End.Kind {
				case EndPanic:
					key := "panic|" + pr.Panic.Kind + "|" + pr.Panic.Stack
					if !seenViol[key] {
						seenViol[key] = true
						hr.Violations = append(hr.Violations, Violation{Label: "panic: " + pr.Panic.Kind, Kind: "panic", Model: pr.Model, Stack: pr.Panic.Stack})
					}
				case EndUnwind, EndSteps, EndUnsupported, EndConcretize:
					if len(hr.Incomplete) < 50 {
						hr.Incomplete = append(hr.Incomplete, pr.End.Kind.String()+": "+pr.End.Msg)
						hr.IncompleteM = append(hr.IncompleteM, pr.Model)
					}
				}
				mu.Unlock()
				cond.Broadcast()
			}
		}()
	}
	wg.Wait()
	hr.Wall = time.Since(t0).Seconds()
	shp.fnInfos.Range(func(k, v interface{}) bool {
		f := k.(*ssa.Function)
		n := 0
		for _, b := range f.Blocks {
			n += len(b.Instrs)
		}
		hr.Funcs[f.String()] = n
		return true
	})
	sort.Strings(hr.Incomplete)
	return hr
}

// runPath executes one path identified by a decision prefix.
func (sh *Shared) runPath(s *sym.Solver, fn *ssa.Function, work Work) (pr *PathResult, alts []Work, internal string) {
	s.Reset()
	e := sh.newExec(s)
	e.prefix = work.Prefix
	if work.Model != nil {
		e.setModel(work.Model)
	} else {
		e.setModel(map[string]uint64{})
	}
	e.res = &PathResult{}
	pr = e.res
	needModel := false
	func() {
		defer func() {
			r := recover()
			if r == nil {
				pr.End = pathEnd{EndReturn, ""}
				needModel = len(pr.Reached) > 0
				return
			}
			switch x := r.(type) {
			case pathEnd:
				pr.End = x
				needModel = x.Kind == EndUnwind || x.Kind == EndSteps
			case *goPanic:
				pr.End = pathEnd{EndPanic, x.Kind}
				pr.Panic = x
				needModel = true
			default:
				pr.End = pathEnd{EndUnsupported, fmt.Sprintf("internal error: %v", r)}
				internal = fmt.Sprintf("internal error in %s: %v\n%s", fn.Name(), r, debug.Stack())
			}
		}()
		e.callFunction(fn, nil, nil, nil)
	}()
	if needModel && internal == "" {
		func() {
			defer func() {
				if r := recover(); r != nil {
					internal = fmt.Sprintf("internal error computing model: %v", r)
				}
			}()
			pr.Model = e.model()
			if pr.Model == nil && len(e.nondets) > 0 && pr.End.Kind == EndPanic {
				// could not confirm feasibility of the panic path
				pr.End = pathEnd{EndUnsupported, "panic path without model (solver unknown): " + pr.Panic.Kind + " @ " + pr.Panic.Stack}
				pr.Panic = nil
			}
		}()
	}
	pr.Steps = e.steps
	pr.Decisions = len(e.trace)
	return pr, e.alts, internal
}
