package llsym

import (
	"fmt"
	"strconv"
	"strings"
)

// parseBody parses a function's instructions on first use.
func (m *Module) parseBody(f *Func) {
	if f.parsed {
		return
	}
	f.parsed = true
	f.BlockIx = map[string]*Block{}
	cur := &Block{Name: entryName(f)}
	f.Blocks = append(f.Blocks, cur)
	f.BlockIx[cur.Name] = cur
	var joined []string
	for i := 0; i < len(f.lines); i++ {
		ln := f.lines[i]
		if t := strings.TrimSpace(ln); strings.HasPrefix(t, "switch ") && strings.HasSuffix(t, "[") {
			for i+1 < len(f.lines) {
				i++
				nx := strings.TrimSpace(f.lines[i])
				ln += " " + nx
				if strings.HasPrefix(nx, "]") {
					break
				}
			}
		}
		joined = append(joined, ln)
	}
	for _, raw := range joined {
		line := raw
		if i := strings.Index(line, " ; "); i >= 0 && !strings.Contains(line[:i], `c"`) {
			line = line[:i]
		}
		line = strings.TrimRight(line, " \t")
		if strings.TrimSpace(line) == "" {
			continue
		}
		if line[0] != ' ' {
			// label: "12:" or "name:"
			name := strings.TrimSuffix(strings.Fields(line)[0], ":")
			name = strings.Trim(name, `"`)
			cur = &Block{Name: name}
			f.Blocks = append(f.Blocks, cur)
			f.BlockIx[name] = cur
			continue
		}
		in := m.parseInstr(strings.TrimSpace(line))
		in.Line = strings.TrimSpace(raw)
		cur.Instrs = append(cur.Instrs, in)
		f.NInstr++
	}
}

// entryName: the implicit label of the first block is the next unnamed value number.
func entryName(f *Func) string {
	n := 0
	for _, p := range f.Params {
		if _, err := strconv.Atoi(p.Name); err == nil {
			n++
		}
	}
	return strconv.Itoa(n)
}

func stripMeta(s string) string {
	// drop ", !tbaa !12" style suffixes and trailing attribute groups "#26"
	for {
		i := strings.LastIndex(s, ", !")
		if i < 0 {
			break
		}
		s = s[:i]
	}
	s = strings.TrimRight(s, " ")
	for {
		i := strings.LastIndex(s, " #")
		if i < 0 {
			break
		}
		rest := s[i+2:]
		ok := rest != ""
		for _, c := range rest {
			if c < '0' || c > '9' {
				ok = false
			}
		}
		if !ok {
			break
		}
		s = s[:i]
	}
	return s
}

var binops = map[string]bool{"add": true, "sub": true, "mul": true, "udiv": true, "sdiv": true, "urem": true, "srem": true,
	"shl": true, "lshr": true, "ashr": true, "and": true, "or": true, "xor": true}
var castops = map[string]bool{"zext": true, "sext": true, "trunc": true, "bitcast": true, "ptrtoint": true, "inttoptr": true, "addrspacecast": true}
var floatops = map[string]bool{"fadd": true, "fsub": true, "fmul": true, "fdiv": true, "frem": true, "fneg": true, "fcmp": true,
	"uitofp": true, "sitofp": true, "fptoui": true, "fptosi": true, "fpext": true, "fptrunc": true}

func (m *Module) parseInstr(s string) *Instr {
	s = stripMeta(s)
	l := &lexer{s: s}
	in := &Instr{}
	tok := l.next()
	if tok[0] == '%' && l.peek() == "=" {
		in.Res = strings.Trim(tok[1:], `"`)
		l.next()
		tok = l.next()
	}
	if tok == "tail" || tok == "musttail" || tok == "notail" {
		tok = l.next()
	}
	in.Op = tok
	switch {
	case binops[tok]:
		for {
			p := l.peek()
			if p == "nuw" || p == "nsw" || p == "exact" {
				in.Flags += p + " "
				l.next()
				continue
			}
			break
		}
		in.Ty = m.parseType(l)
		in.Args = append(in.Args, m.parseValue(l, in.Ty))
		l.expect(",")
		in.Args = append(in.Args, m.parseValue(l, in.Ty))
	case tok == "icmp":
		in.Pred = l.next()
		in.Ty = m.parseType(l)
		in.Args = append(in.Args, m.parseValue(l, in.Ty))
		l.expect(",")
		in.Args = append(in.Args, m.parseValue(l, in.Ty))
	case castops[tok]:
		in.Ty = m.parseType(l)
		in.Args = append(in.Args, m.parseValue(l, in.Ty))
		l.expect("to")
		in.Ty2 = m.parseType(l)
	case tok == "select":
		ct := m.parseType(l)
		in.Args = append(in.Args, m.parseValue(l, ct))
		l.expect(",")
		in.Ty = m.parseType(l)
		in.Args = append(in.Args, m.parseValue(l, in.Ty))
		l.expect(",")
		t2 := m.parseType(l)
		in.Args = append(in.Args, m.parseValue(l, t2))
	case tok == "freeze":
		in.Ty = m.parseType(l)
		in.Args = append(in.Args, m.parseValue(l, in.Ty))
	case tok == "phi":
		in.Ty = m.parseType(l)
		for {
			l.expect("[")
			v := m.parseValue(l, in.Ty)
			l.expect(",")
			lab := l.next()
			l.expect("]")
			in.Phi = append(in.Phi, PhiIn{V: v, Label: strings.Trim(lab[1:], `"`)})
			if !l.accept(",") {
				break
			}
		}
	case tok == "alloca":
		l.accept("inalloca")
		in.Ty2 = m.parseType(l)
		if l.accept(",") {
			if l.peek() == "align" {
				l.next()
				l.next()
			} else {
				nt := m.parseType(l)
				in.Args = append(in.Args, m.parseValue(l, nt))
			}
		}
	case tok == "load":
		l.accept("atomic")
		l.accept("volatile")
		in.Ty2 = m.parseType(l)
		l.expect(",")
		pt := m.parseType(l)
		in.Args = append(in.Args, m.parseValue(l, pt))
	case tok == "store":
		l.accept("atomic")
		l.accept("volatile")
		in.Ty = m.parseType(l)
		in.Args = append(in.Args, m.parseValue(l, in.Ty))
		l.expect(",")
		pt := m.parseType(l)
		in.Args = append(in.Args, m.parseValue(l, pt))
	case tok == "getelementptr":
		if l.accept("inbounds") {
			in.Flags = "inbounds"
		}
		in.Ty2 = m.parseType(l)
		l.expect(",")
		pt := m.parseType(l)
		in.Ty = pt
		in.Args = append(in.Args, m.parseValue(l, pt))
		for l.accept(",") {
			it := m.parseType(l)
			in.Args = append(in.Args, m.parseValue(l, it))
		}
	case tok == "br":
		if l.peek() == "label" {
			l.next()
			in.Labels = append(in.Labels, strings.Trim(l.next()[1:], `"`))
		} else {
			ct := m.parseType(l)
			in.Args = append(in.Args, m.parseValue(l, ct))
			l.expect(",")
			l.expect("label")
			in.Labels = append(in.Labels, strings.Trim(l.next()[1:], `"`))
			l.expect(",")
			l.expect("label")
			in.Labels = append(in.Labels, strings.Trim(l.next()[1:], `"`))
		}
	case tok == "switch":
		in.Ty = m.parseType(l)
		in.Args = append(in.Args, m.parseValue(l, in.Ty))
		l.expect(",")
		l.expect("label")
		in.Labels = append(in.Labels, strings.Trim(l.next()[1:], `"`))
		l.expect("[")
		for l.peek() != "]" && l.peek() != "" {
			ct := m.parseType(l)
			in.Cases = append(in.Cases, m.parseValue(l, ct))
			l.expect(",")
			l.expect("label")
			in.Labels = append(in.Labels, strings.Trim(l.next()[1:], `"`))
		}
	case tok == "ret":
		in.Ty = m.parseType(l)
		if in.Ty.K != TVoid {
			in.Args = append(in.Args, m.parseValue(l, in.Ty))
		}
	case tok == "unreachable":
	case tok == "call":
		for {
			p := l.peek()
			if p == "fastcc" || p == "ccc" || p == "coldcc" || paramAttrs[p] || p == "nnan" || p == "ninf" || p == "nsz" || p == "fast" || p == "arcp" || p == "contract" || p == "reassoc" || p == "afn" {
				l.next()
				continue
			}
			if p == "align" || p == "dereferenceable" || p == "dereferenceable_or_null" {
				l.next()
				if l.accept("(") {
					l.next()
					l.expect(")")
				} else {
					l.next()
				}
				continue
			}
			break
		}
		in.Ty = m.parseType(l)
		// in.Ty may be the return type or the full function type (for varargs / pointers-to-function)
		ft := in.Ty
		if ft.K == TFunc {
			in.Ty = ft.Ret
		} else if ft.K == TPtr && ft.Elem.K == TFunc {
			in.Ty = ft.Elem.Ret
		}
		in.Callee = m.parseValue(l, &Type{K: TPtr, Elem: &Type{K: TFunc, Ret: in.Ty}})
		l.expect("(")
		for l.peek() != ")" {
			at := m.parseType(l)
			bv, _ := m.parseParamAttrs(l)
			in.ArgTys = append(in.ArgTys, at)
			in.ByVals = append(in.ByVals, bv)
			in.Args = append(in.Args, m.parseValue(l, at))
			l.accept(",")
		}
		l.expect(")")
	case tok == "extractvalue":
		in.Ty = m.parseType(l)
		in.Args = append(in.Args, m.parseValue(l, in.Ty))
		for l.accept(",") {
			n, _ := strconv.Atoi(l.next())
			in.Idx = append(in.Idx, n)
		}
	case tok == "insertvalue":
		in.Ty = m.parseType(l)
		in.Args = append(in.Args, m.parseValue(l, in.Ty))
		l.expect(",")
		et := m.parseType(l)
		in.Args = append(in.Args, m.parseValue(l, et))
		for l.accept(",") {
			n, _ := strconv.Atoi(l.next())
			in.Idx = append(in.Idx, n)
		}
	case floatops[tok]:
		in.Op = "float:" + tok
	default:
		panic(fmt.Sprintf("llsym parse: unknown instruction %q in %q", tok, s))
	}
	return in
}
