package llsym

import (
	"fmt"
	"strings"

	"verif/engine/sym"
)

func (e *Exec) call(fn *Func, args []Val) Val {
	if fn.Declared {
		return e.external(fn, args)
	}
	if e.depth >= e.cfg.MaxDepth {
		e.end("unwind", "call depth %d exceeded in %s", e.cfg.MaxDepth, fn.Name)
	}
	if !fn.parsed {
		parseMu.Lock()
		e.m.parseBody(fn)
		parseMu.Unlock()
	}
	e.fnSeen[fn.Name] = true
	fr := &frame{fn: fn, regs: make(map[string]Val, 64), caller: e.cur}
	for i, p := range fn.Params {
		if i < len(args) {
			fr.regs[p.Name] = args[i]
		}
	}
	e.depth++
	saved := e.cur
	e.cur = fr
	ret := e.runBlocks(fr)
	for _, o := range fr.allocas {
		o.Dead = true
	}
	e.cur = saved
	e.depth--
	return ret
}

func (e *Exec) runBlocks(fr *frame) Val {
	b := fr.fn.Blocks[0]
	prev := ""
	for {
		// phis are evaluated simultaneously
		nphi := 0
		for nphi < len(b.Instrs) && b.Instrs[nphi].Op == "phi" {
			nphi++
		}
		if nphi > 0 {
			vals := make([]Val, nphi)
			for i := 0; i < nphi; i++ {
				found := false
				for _, pi := range b.Instrs[i].Phi {
					if pi.Label == prev {
						vals[i] = e.evalConst(fr, pi.V)
						found = true
						break
					}
				}
				if !found {
					panic(fmt.Sprintf("llsym: phi in %s/%s has no entry for predecessor %s", fr.fn.Name, b.Name, prev))
				}
			}
			for i := 0; i < nphi; i++ {
				fr.regs[b.Instrs[i].Res] = vals[i]
			}
		}
		e.curBlock = b.Name
		e.steps += int64(len(b.Instrs))
		if e.steps > e.cfg.MaxSteps {
			e.end("steps", "step budget %d exceeded in %s", e.cfg.MaxSteps, e.stack())
		}
		next := ""
		for _, in := range b.Instrs[nphi:] {
			switch in.Op {
			case "br":
				if len(in.Labels) == 1 {
					next = in.Labels[0]
				} else {
					c := bvToBool(asTerm(e.evalConst(fr, in.Args[0])))
					if !c.IsConst() {
						if fr.ifCount == nil {
							fr.ifCount = map[*Instr]int{}
						}
						fr.ifCount[in]++
						if fr.ifCount[in] > e.cfg.Unwind {
							e.end("unwind", "unwind bound %d at a branch of %s/%s @ %s", e.cfg.Unwind, fr.fn.Name, b.Name, e.stack())
						}
					}
					if e.branch(c) {
						next = in.Labels[0]
					} else {
						next = in.Labels[1]
					}
				}
			case "switch":
				v := asTerm(e.evalConst(fr, in.Args[0]))
				next = in.Labels[0]
				if v.IsConst() {
					for i, cs := range in.Cases {
						if cs.Int&maskOf(v.W) == v.Val {
							next = in.Labels[i+1]
							break
						}
					}
				} else {
					if fr.ifCount == nil {
						fr.ifCount = map[*Instr]int{}
					}
					fr.ifCount[in]++
					if fr.ifCount[in] > e.cfg.Unwind {
						e.end("unwind", "unwind bound %d at a switch of %s/%s @ %s", e.cfg.Unwind, fr.fn.Name, b.Name, e.stack())
					}
					for i, cs := range in.Cases {
						if e.branch(sym.Eq(v, sym.BV(cs.Int, v.W))) {
							next = in.Labels[i+1]
							break
						}
					}
				}
			case "ret":
				if len(in.Args) == 0 {
					return nil
				}
				return e.evalConst(fr, in.Args[0])
			case "unreachable":
				panic(pathEnd{"ub", "unreachable executed @ " + e.stack()})
			default:
				e.exec(fr, in)
			}
			if next != "" {
				break
			}
		}
		if next == "" {
			panic("llsym: block without terminator in " + fr.fn.Name)
		}
		prev = b.Name
		nb, ok := fr.fn.BlockIx[next]
		if !ok {
			panic("llsym: unknown block " + next + " in " + fr.fn.Name)
		}
		b = nb
	}
}

func maskOf(w int) uint64 {
	if w >= 64 {
		return ^uint64(0)
	}
	return uint64(1)<<uint(w) - 1
}

func (e *Exec) exec(fr *frame, in *Instr) {
	set := func(v Val) {
		if in.Res != "" {
			fr.regs[in.Res] = v
		}
	}
	switch {
	case binops[in.Op]:
		a, b := e.evalConst(fr, in.Args[0]), e.evalConst(fr, in.Args[1])
		set(e.binop(in.Op, in.Flags, a, b, in.Ty))
	case in.Op == "icmp":
		a, b := e.evalConst(fr, in.Args[0]), e.evalConst(fr, in.Args[1])
		var c *sym.Term
		if pa, ok := a.(*PtrVal); ok {
			c = e.ptrCmp(in.Pred, pa, b.(*PtrVal))
		} else {
			c = icmp(in.Pred, asTerm(a), asTerm(b))
		}
		set(boolToBV(c))
	case castops[in.Op]:
		set(e.cast(in.Op, e.evalConst(fr, in.Args[0]), in.Ty, in.Ty2))
	case in.Op == "select":
		c := bvToBool(asTerm(e.evalConst(fr, in.Args[0])))
		a, b := e.evalConst(fr, in.Args[1]), e.evalConst(fr, in.Args[2])
		set(e.selectVal(c, a, b))
	case in.Op == "freeze":
		set(e.evalConst(fr, in.Args[0]))
	case in.Op == "alloca":
		n := 1
		if len(in.Args) > 0 {
			n = int(e.concretize(asTerm(e.evalConst(fr, in.Args[0]))))
		}
		o := e.newObj(in.Ty2.Size()*n, "alloca "+fr.fn.Name+"/%"+in.Res)
		fr.allocas = append(fr.allocas, o)
		set(&PtrVal{Obj: o, Off: sym.BV(0, 64)})
	case in.Op == "load":
		p, ok := e.evalConst(fr, in.Args[0]).(*PtrVal)
		if !ok {
			e.unsupported("load through a non-pointer")
		}
		set(e.load(p, in.Ty2))
	case in.Op == "store":
		p, ok := e.evalConst(fr, in.Args[1]).(*PtrVal)
		if !ok {
			e.unsupported("store through a non-pointer")
		}
		e.store(p, e.evalConst(fr, in.Args[0]), in.Ty)
	case in.Op == "getelementptr":
		base, ok := e.evalConst(fr, in.Args[0]).(*PtrVal)
		if !ok {
			e.unsupported("getelementptr on a non-pointer")
		}
		idx := make([]Val, len(in.Args)-1)
		for i := range idx {
			idx[i] = e.evalConst(fr, in.Args[i+1])
		}
		set(e.gep(base, in.Ty2, idx))
	case in.Op == "extractvalue":
		v := e.evalConst(fr, in.Args[0])
		for _, k := range in.Idx {
			v = v.(*AggVal).E[k]
		}
		set(v)
	case in.Op == "insertvalue":
		agg := e.evalConst(fr, in.Args[0])
		set(insertValue(agg, e.evalConst(fr, in.Args[1]), in.Idx))
	case in.Op == "call":
		set(e.doCall(fr, in))
	case strings.HasPrefix(in.Op, "float:"):
		e.unsupported("floating-point instruction %s", in.Op)
	default:
		e.unsupported("instruction %s", in.Op)
	}
}

func insertValue(agg Val, v Val, idx []int) Val {
	a := agg.(*AggVal)
	n := &AggVal{E: append([]Val(nil), a.E...)}
	if len(idx) == 1 {
		n.E[idx[0]] = v
	} else {
		n.E[idx[0]] = insertValue(a.E[idx[0]], v, idx[1:])
	}
	return n
}

func (e *Exec) selectVal(c *sym.Term, a, b Val) Val {
	if c.IsConst() {
		if c.Val == 1 {
			return a
		}
		return b
	}
	switch x := a.(type) {
	case *sym.Term:
		return sym.Ite(c, x, asTerm(b))
	case *PtrVal:
		y := b.(*PtrVal)
		if x.Obj == y.Obj && x.Fn == y.Fn {
			return &PtrVal{Obj: x.Obj, Fn: x.Fn, Off: sym.Ite(c, x.Off, y.Off)}
		}
		// pointers into different objects: decide on this path
		if e.branch(c) {
			return a
		}
		return b
	case *AggVal:
		y := b.(*AggVal)
		n := &AggVal{E: make([]Val, len(x.E))}
		for i := range x.E {
			n.E[i] = e.selectVal(c, x.E[i], y.E[i])
		}
		return n
	}
	e.unsupported("select of %T", a)
	return nil
}

func (e *Exec) doCall(fr *frame, in *Instr) Val {
	cv := e.evalConst(fr, in.Callee)
	p, ok := cv.(*PtrVal)
	if !ok || p.Fn == nil {
		if ok && p.Obj == nil {
			panic(pathEnd{"ub", "call through a null or invalid function pointer @ " + e.stack()})
		}
		e.unsupported("indirect call through a non-function pointer")
	}
	args := make([]Val, len(in.Args))
	for i, a := range in.Args {
		args[i] = e.evalConst(fr, a)
		if bt := in.ByVals[i]; bt != nil {
			// byval: the callee gets a private copy
			src := args[i].(*PtrVal)
			cp := e.newObj(bt.Size(), "byval copy")
			fr.allocas = append(fr.allocas, cp)
			e.memcpy(&PtrVal{Obj: cp, Off: sym.BV(0, 64)}, src, bt.Size())
			args[i] = &PtrVal{Obj: cp, Off: sym.BV(0, 64)}
		}
	}
	if strings.HasPrefix(p.Fn.Name, "llvm.") {
		return e.intrinsic(p.Fn.Name, args, in)
	}
	return e.call(p.Fn, args)
}

func (e *Exec) memcpy(dst, src *PtrVal, n int) {
	if n == 0 {
		return
	}
	so, sc := e.access(src, n, "memcpy source read")
	do, dc := e.access(dst, n, "memcpy destination write")
	if sc != nil {
		so = int(e.concretize(src.Off))
	}
	if dc != nil {
		do = int(e.concretize(dst.Off))
	}
	if dst.Obj.ReadOnly {
		panic(pathEnd{"ub", "memcpy into a constant @ " + e.stack()})
	}
	tmp := make([]cell, n)
	for i := 0; i < n; i++ {
		tmp[i] = e.byteAt(src.Obj, so+i)
	}
	copy(dst.Obj.B[do:do+n], tmp)
}

func (e *Exec) intrinsic(name string, args []Val, in *Instr) Val {
	base := name
	switch {
	case strings.HasPrefix(base, "llvm.lifetime.") || strings.HasPrefix(base, "llvm.dbg.") || strings.HasPrefix(base, "llvm.experimental.noalias") || base == "llvm.assume":
		if base == "llvm.assume" {
			// the compiler derived this from the code; a path on which it is false has undefined behaviour
		}
		return nil
	case strings.HasPrefix(base, "llvm.memcpy.") || strings.HasPrefix(base, "llvm.memmove."):
		n := asTerm(args[2])
		k := int(e.concretize(n))
		e.memcpy(args[0].(*PtrVal), args[1].(*PtrVal), k)
		return nil
	case strings.HasPrefix(base, "llvm.memset."):
		n := int(e.concretize(asTerm(args[2])))
		if n == 0 {
			return nil
		}
		dst := args[0].(*PtrVal)
		do, dc := e.access(dst, n, "memset write")
		if dc != nil {
			do = int(e.concretize(dst.Off))
		}
		if dst.Obj.ReadOnly {
			panic(pathEnd{"ub", "memset of a constant @ " + e.stack()})
		}
		v := sym.Extract(asTerm(args[1]), 7, 0)
		for i := 0; i < n; i++ {
			dst.Obj.B[do+i] = cell{t: v}
		}
		return nil
	case strings.HasPrefix(base, "llvm.umax."), strings.HasPrefix(base, "llvm.umin."), strings.HasPrefix(base, "llvm.smax."), strings.HasPrefix(base, "llvm.smin."):
		a, b := asTerm(args[0]), asTerm(args[1])
		var c *sym.Term
		switch base[5:9] {
		case "umax":
			c = sym.ULT(b, a)
		case "umin":
			c = sym.ULT(a, b)
		case "smax":
			c = sym.SLT(b, a)
		default:
			c = sym.SLT(a, b)
		}
		return sym.Ite(c, a, b)
	case strings.HasPrefix(base, "llvm.usub.sat."):
		a, b := asTerm(args[0]), asTerm(args[1])
		return sym.Ite(sym.ULT(a, b), sym.BV(0, a.W), sym.Sub(a, b))
	case strings.HasPrefix(base, "llvm.uadd.sat."):
		a, b := asTerm(args[0]), asTerm(args[1])
		s := sym.Add(a, b)
		return sym.Ite(sym.ULT(s, a), sym.BV(maskOf(a.W), a.W), s)
	case strings.HasPrefix(base, "llvm.abs."):
		a := asTerm(args[0])
		return sym.Ite(sym.SLT(a, sym.BV(0, a.W)), sym.Neg(a), a)
	case strings.HasPrefix(base, "llvm.ctlz."):
		a := asTerm(args[0])
		res := sym.BV(uint64(a.W), a.W)
		for k := 0; k < a.W; k++ {
			// highest set bit k => ctlz = W-1-k
			res = sym.Ite(sym.Eq(sym.Extract(a, k, k), sym.BV(1, 1)), sym.BV(uint64(a.W-1-k), a.W), res)
		}
		return res
	case strings.HasPrefix(base, "llvm.cttz."):
		a := asTerm(args[0])
		res := sym.BV(uint64(a.W), a.W)
		for k := a.W - 1; k >= 0; k-- {
			res = sym.Ite(sym.Eq(sym.Extract(a, k, k), sym.BV(1, 1)), sym.BV(uint64(k), a.W), res)
		}
		return res
	case strings.HasPrefix(base, "llvm.bswap."):
		a := asTerm(args[0])
		var t *sym.Term
		for i := 0; i < a.W/8; i++ {
			b := sym.Extract(a, 8*i+7, 8*i)
			if t == nil {
				t = b
			} else {
				t = sym.Concat(t, b)
			}
		}
		return t
	case strings.HasPrefix(base, "llvm.fshl."), strings.HasPrefix(base, "llvm.fshr."):
		a, b, c := asTerm(args[0]), asTerm(args[1]), asTerm(args[2])
		w := uint64(a.W)
		sh := sym.URem(c, sym.BV(w, a.W))
		inv := sym.Sub(sym.BV(w, a.W), sh)
		z := sym.Eq(sh, sym.BV(0, a.W))
		if strings.HasPrefix(base, "llvm.fshl.") {
			return sym.Ite(z, a, sym.BOr(sym.Shl(a, sh), sym.LShr(b, inv)))
		}
		return sym.Ite(z, b, sym.BOr(sym.Shl(a, inv), sym.LShr(b, sh)))
	}
	e.unsupported("intrinsic %s", name)
	return nil
}

// external: harness interface and the few libc functions the generated code may call.
func (e *Exec) external(fn *Func, args []Val) Val {
	switch fn.Name {
	case "nondet_u8", "nondet_u16", "nondet_u32", "nondet_u64", "nondet_size_t", "nondet_bool":
		w := fn.Ret.Bits
		name := strings.TrimPrefix(fn.Name, "nondet_")
		v := e.nondet(name, w)
		if fn.Name == "nondet_bool" {
			e.pc = append(e.pc, sym.ULE(v, sym.BV(1, w)))
		}
		return v
	case "verif_assume":
		e.assume(sym.Not(sym.Eq(asTerm(args[0]), sym.BV(0, asTerm(args[0]).W))))
		return nil
	case "verif_check":
		c := sym.Not(sym.Eq(asTerm(args[0]), sym.BV(0, asTerm(args[0]).W)))
		e.check(c, e.cString(args[1]))
		return nil
	case "verif_reach":
		e.reached = append(e.reached, e.cString(args[0]))
		return nil
	case "verif_conc":
		t := asTerm(args[0])
		return sym.BV(e.concretize(t), t.W)
	case "verif_param":
		name := e.cString(args[0])
		v, ok := e.cfg.Params[name]
		if !ok {
			e.unsupported("harness parameter %s not set", name)
		}
		return sym.BV(uint64(int64(v)), fn.Ret.Bits)
	case "verif_garbage":
		// verif_garbage(p, n): the n bytes at p hold arbitrary (uninitialised) content
		p := args[0].(*PtrVal)
		n := int(e.concretize(asTerm(args[1])))
		off, _ := e.access(p, n, "verif_garbage")
		for i := 0; i < n; i++ {
			if n <= 4096 {
				// replayable: each garbage byte is a recorded nondeterministic value
				p.Obj.B[off+i] = cell{t: e.nondet("g8", 8)}
			} else {
				p.Obj.B[off+i] = cell{}
			}
		}
		return nil
	case "verif_spec_reset", "verif_spec_set", "verif_spec_get", "verif_spec_call":
		if e.cfg.Spec == nil {
			e.unsupported("%s without a reference interpreter", fn.Name)
		}
		if e.spec == nil {
			e.spec = e.cfg.Spec()
		}
		name := e.cString(args[0])
		var t *sym.Term
		var err error
		switch fn.Name {
		case "verif_spec_reset":
			err = e.spec.Reset(name)
		case "verif_spec_set":
			err = e.spec.Set(name, e.concretize(asTerm(args[1])), asTerm(args[2]))
		case "verif_spec_get":
			t, err = e.spec.Get(name, e.concretize(asTerm(args[1])))
		case "verif_spec_call":
			var as []*sym.Term
			for _, a := range args[1:] {
				as = append(as, asTerm(a))
			}
			t, err = e.spec.Call(name, as, func(c *sym.Term, label string) { e.check(c, label) })
		}
		if err != nil {
			e.unsupported("%s(%s): %v", fn.Name, name, err)
		}
		if fn.Name == "verif_spec_get" || fn.Name == "verif_spec_call" {
			// the reference value is recorded like a nondeterministic input that is constrained to equal the
			// interpreter's term, so that the native replay (which has no interpreter) reads it from the model
			v := e.nondet("s64", 64)
			if t == nil {
				t = sym.BV(0, 64)
			}
			e.addPC(sym.Eq(v, t))
			return v
		}
		return nil
	case "verif_same_bytes":
		// verif_same_bytes(p, q, n): are the n bytes at p and q identical (as terms or values)?
		p, q := args[0].(*PtrVal), args[1].(*PtrVal)
		n := int(e.concretize(asTerm(args[2])))
		po, _ := e.access(p, n, "verif_same_bytes")
		qo, _ := e.access(q, n, "verif_same_bytes")
		r := sym.True
		for i := 0; i < n; i++ {
			a, b := e.byteAt(p.Obj, po+i), e.byteAt(q.Obj, qo+i)
			if a.t == nil || b.t == nil {
				if a.p != b.p || a.idx != b.idx {
					r = sym.False
				}
				continue
			}
			r = sym.And(r, sym.Eq(a.t, b.t))
		}
		return sym.Ite(r, sym.BV(1, fn.Ret.Bits), sym.BV(0, fn.Ret.Bits))
	case "memcmp":
		p, q := args[0].(*PtrVal), args[1].(*PtrVal)
		n := int(e.concretize(asTerm(args[2])))
		if n == 0 {
			return sym.BV(0, 32)
		}
		po, pc := e.access(p, n, "memcmp")
		qo, qc := e.access(q, n, "memcmp")
		if pc != nil {
			po = int(e.concretize(p.Off))
		}
		if qc != nil {
			qo = int(e.concretize(q.Off))
		}
		res := sym.BV(0, 32)
		for i := n - 1; i >= 0; i-- {
			a, b := e.byteAt(p.Obj, po+i).t, e.byteAt(q.Obj, qo+i).t
			if a == nil || b == nil {
				e.unsupported("memcmp over pointer bytes")
			}
			res = sym.Ite(sym.Eq(a, b), res, sym.Ite(sym.ULT(a, b), sym.BV(0xFFFFFFFF, 32), sym.BV(1, 32)))
		}
		return res
	case "strlen":
		return sym.BV(uint64(len(e.cString(args[0]))), 64)
	case "malloc", "calloc", "realloc", "free":
		panic(pathEnd{"ub", "allocator call (" + fn.Name + ") reached: generated Wuffs code must not allocate @ " + e.stack()})
	case "abort", "exit":
		e.end("return", "abort")
	}
	e.unsupported("call of external function %s", fn.Name)
	return nil
}
