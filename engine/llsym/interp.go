package llsym

import (
	"fmt"
	"strings"
	"sync"

	"verif/engine/sym"
)

var roMu sync.Mutex

// ---- objects ----

func (e *Exec) newObj(size int, name string) *Obj {
	e.nextObj++
	return &Obj{ID: e.nextObj, Size: size, B: make([]cell, size), Name: name}
}

func (m *Module) roObj(e *Exec, g *Global) *Obj {
	roMu.Lock()
	defer roMu.Unlock()
	if m.ro == nil {
		m.ro = map[string]*Obj{}
	}
	if o, ok := m.ro[g.Name]; ok {
		return o
	}
	o := &Obj{ID: -len(m.ro) - 1, Size: g.Ty.Size(), B: make([]cell, g.Ty.Size()), Name: "@" + g.Name, ReadOnly: true}
	m.ro[g.Name] = o // registered before initialisation: constants may refer to each other
	e.initConst(o, 0, g.Init, g.Ty)
	return o
}

func (e *Exec) global(name string) *Obj {
	if o, ok := e.globals[name]; ok {
		return o
	}
	g := e.m.Globals[name]
	if g == nil {
		e.unsupported("unknown global @%s", name)
	}
	if g.Init == nil {
		e.unsupported("external global @%s", name)
	}
	var o *Obj
	if g.Constant {
		o = e.m.roObj(e, g)
	} else {
		o = e.newObj(g.Ty.Size(), "@"+name)
		e.globals[name] = o
		e.initConst(o, 0, g.Init, g.Ty)
	}
	e.globals[name] = o
	return o
}

var zero8 = sym.BV(0, 8)

func (e *Exec) initConst(o *Obj, off int, c *Const, ty *Type) {
	switch c.Kind {
	case "zero", "undef":
		for i := 0; i < ty.Size(); i++ {
			o.B[off+i] = cell{t: zero8}
		}
	case "int":
		if c.Wide {
			e.unsupported("integer constant wider than 64 bits")
		}
		n := ty.Size()
		for i := 0; i < n; i++ {
			var b uint64
			if i < 8 {
				b = c.Int >> (8 * uint(i)) & 0xFF
			} else if int64(c.Int) < 0 {
				b = 0xFF
			}
			o.B[off+i] = cell{t: sym.BV(b, 8)}
		}
	case "string":
		for i, b := range c.Str {
			o.B[off+i] = cell{t: sym.BV(uint64(b), 8)}
		}
	case "array":
		es := ty.Elem.Size()
		for i, el := range c.Elems {
			e.initConst(o, off+i*es, el, ty.Elem)
		}
	case "struct":
		for i, el := range c.Elems {
			e.initConst(o, off+ty.FieldOffset(i), el, ty.Fields[i])
			// padding
		}
		for i := 0; i < ty.Size(); i++ {
			if o.B[off+i].t == nil && o.B[off+i].p == nil {
				o.B[off+i] = cell{t: zero8}
			}
		}
	case "float":
		for i := 0; i < ty.Size(); i++ {
			o.B[off+i] = cell{t: zero8} // floating-point tables are outside every harness
		}
	case "null", "global", "gep", "cast", "binop":
		v := e.evalConst(nil, c)
		e.storeVal(o, off, v, ty)
	default:
		e.unsupported("global initialiser of kind %s", c.Kind)
	}
}

// ---- constant / operand evaluation ----

func (e *Exec) evalConst(fr *frame, c *Const) Val {
	switch c.Kind {
	case "local":
		v, ok := fr.regs[c.Name]
		if !ok {
			panic(fmt.Sprintf("llsym: read of unset register %%%s in %s", c.Name, fr.fn.Name))
		}
		return v
	case "int":
		if c.Wide || c.Ty.Bits > 64 {
			e.unsupported("integer wider than 64 bits")
		}
		return sym.BV(c.Int, c.Ty.Bits)
	case "null":
		return nullPtr
	case "undef":
		return e.undefOf(c.Ty)
	case "zero":
		return e.zeroOf(c.Ty)
	case "global":
		if f, ok := e.m.Funcs[c.Name]; ok {
			return &PtrVal{Fn: f, Off: sym.BV(0, 64)}
		}
		return &PtrVal{Obj: e.global(c.Name), Off: sym.BV(0, 64)}
	case "gep":
		base := e.evalConst(fr, c.Base).(*PtrVal)
		idx := make([]Val, len(c.Indices))
		for i, ix := range c.Indices {
			idx[i] = e.evalConst(fr, ix)
		}
		return e.gep(base, c.SrcTy, idx)
	case "cast":
		return e.cast(c.Op, e.evalConst(fr, c.Base), c.SrcTy, c.Ty)
	case "binop":
		return e.binop(c.Op, "", e.evalConst(fr, c.Elems[0]), e.evalConst(fr, c.Elems[1]), c.Ty)
	case "struct", "array":
		agg := &AggVal{}
		for _, el := range c.Elems {
			agg.E = append(agg.E, e.evalConst(fr, el))
		}
		return agg
	}
	e.unsupported("operand of kind %s", c.Kind)
	return nil
}

func (e *Exec) zeroOf(t *Type) Val {
	switch t.K {
	case TInt:
		if t.Bits > 64 {
			e.unsupported("integer wider than 64 bits")
		}
		return sym.BV(0, t.Bits)
	case TPtr, TFunc:
		return nullPtr
	case TStruct:
		a := &AggVal{}
		for _, f := range t.Fields {
			a.E = append(a.E, e.zeroOf(f))
		}
		return a
	case TArray:
		a := &AggVal{}
		for i := 0; i < t.N; i++ {
			a.E = append(a.E, e.zeroOf(t.Elem))
		}
		return a
	}
	e.unsupported("zero value of type %s", t)
	return nil
}

// undefOf: an undef/poison operand is an arbitrary value; it is modelled as a fresh symbol.
func (e *Exec) undefOf(t *Type) Val {
	switch t.K {
	case TInt:
		if t.Bits > 64 {
			e.unsupported("integer wider than 64 bits")
		}
		e.uninitCtr++
		return sym.Var(fmt.Sprintf("undef!%d", e.uninitCtr), t.Bits)
	case TPtr:
		return nullPtr
	case TStruct:
		a := &AggVal{}
		for _, f := range t.Fields {
			a.E = append(a.E, e.undefOf(f))
		}
		return a
	case TArray:
		a := &AggVal{}
		for i := 0; i < t.N; i++ {
			a.E = append(a.E, e.undefOf(t.Elem))
		}
		return a
	}
	e.unsupported("undef of type %s", t)
	return nil
}

func asTerm(v Val) *sym.Term {
	t, ok := v.(*sym.Term)
	if !ok {
		panic(fmt.Sprintf("llsym: expected integer value, got %T", v))
	}
	return t
}

// ---- pointers ----

func (e *Exec) gep(base *PtrVal, srcTy *Type, idx []Val) *PtrVal {
	off := base.Off
	add := func(t *sym.Term) { off = sym.Add(off, t) }
	cur := srcTy
	var lim *sym.Term
	if len(idx) == 1 {
		lim = base.Lim // plain pointer arithmetic stays inside the array the pointer came from
	}
	for i, iv := range idx {
		ix := asTerm(iv)
		ix64 := sym.Resize(ix, 64, true)
		if i == 0 {
			add(sym.Mul(ix64, sym.BV(uint64(cur.Size()), 64)))
			continue
		}
		if cur.K == TArray && cur.N > 0 {
			// C semantics: a subscript beyond one-past-the-end of the array is undefined, and the
			// element one past the end must not be accessed (checked at the access through Lim)
			e.requireUB(sym.ULE(ix64, sym.BV(uint64(cur.N), 64)), fmt.Sprintf("array subscript beyond [%d x %s]", cur.N, cur.Elem))
			lim = sym.Add(off, sym.BV(uint64(cur.N*cur.Elem.Size()), 64))
		}
		switch cur.K {
		case TStruct:
			if !ix.IsConst() {
				e.unsupported("symbolic struct index in getelementptr")
			}
			k := int(ix.Val)
			add(sym.BV(uint64(cur.FieldOffset(k)), 64))
			cur = cur.Fields[k]
		case TArray, TVector:
			add(sym.Mul(ix64, sym.BV(uint64(cur.Elem.Size()), 64)))
			cur = cur.Elem
		default:
			e.unsupported("getelementptr into %s", cur)
		}
	}
	return &PtrVal{Obj: base.Obj, Off: off, Fn: base.Fn, Lim: lim}
}

// access validates [off, off+size) against the object and returns a concrete offset or the
// list of candidate offsets.
func (e *Exec) access(p *PtrVal, size int, what string) (int, []int) {
	if p.Obj == nil {
		if p.Fn != nil {
			panic(pathEnd{"ub", what + " through a function pointer @ " + e.stack()})
		}
		panic(pathEnd{"ub", what + " through a null (or integer-derived) pointer @ " + e.stack()})
	}
	if p.Obj.Dead {
		panic(pathEnd{"ub", what + " of an object whose lifetime has ended (" + p.Obj.Name + ") @ " + e.stack()})
	}
	if p.Lim != nil {
		e.requireUB(sym.ULE(sym.Add(p.Off, sym.BV(uint64(size), 64)), p.Lim), what+" beyond the end of the array being indexed (inside a larger object)")
	}
	off := p.Off
	if !off.IsConst() {
		off = e.uniq(off)
	}
	if off.IsConst() {
		o := int64(off.Val)
		if o < 0 || o+int64(size) > int64(p.Obj.Size) {
			panic(pathEnd{"ub", fmt.Sprintf("%s out of bounds: offset %d size %d in %s of %d bytes @ %s", what, o, size, p.Obj.Name, p.Obj.Size, e.stack())})
		}
		return int(o), nil
	}
	// symbolic offset: in bounds for every value, or undefined behaviour for some
	lim := int64(p.Obj.Size) - int64(size)
	if lim < 0 {
		panic(pathEnd{"ub", fmt.Sprintf("%s of %d bytes in %s of %d bytes @ %s", what, size, p.Obj.Name, p.Obj.Size, e.stack())})
	}
	inb := sym.ULE(off, sym.BV(uint64(lim), 64))
	if !e.branch(inb) {
		panic(pathEnd{"ub", fmt.Sprintf("%s out of bounds: symbolic offset beyond %s of %d bytes (access size %d) @ %s", what, p.Obj.Name, p.Obj.Size, size, e.stack())})
	}
	// candidate offsets: multiples of the access size when that is implied, else every offset
	step := 1
	if size > 1 {
		al := sym.Eq(sym.URem(off, sym.BV(uint64(size), 64)), sym.BV(0, 64))
		if al.IsTrue() {
			step = size
		} else if r, _ := e.feasible(sym.Not(al)); r == sym.Unsat {
			step = size
		}
	}
	hi := lim
	if ub, ok := sym.UBound(off, 32); ok && int64(ub) < hi && int64(ub) >= 0 {
		hi = int64(ub)
	} else if lim > 8 {
		// largest feasible offset, by bisection (a handful of queries; keeps the ite chains short)
		lo := int64(0)
		for lo < hi {
			mid := (lo + hi) / 2
			if r, _ := e.feasible(sym.UGT(off, sym.BV(uint64(mid), 64))); r == sym.Unsat {
				hi = mid
			} else {
				lo = mid + 1
			}
		}
	}
	first := int64(0)
	if int(hi)/step+1 > e.cfg.SymIdxCap {
		// many positions below the largest one: find the smallest feasible offset as well (an index
		// into a small array deep inside a large object has a large base and a small range)
		lo, top := int64(0), hi
		for lo < top {
			mid := (lo + top) / 2
			if r, _ := e.feasible(sym.ULE(off, sym.BV(uint64(mid), 64))); r == sym.Unsat {
				lo = mid + 1
			} else {
				top = mid
			}
		}
		first = lo - lo%int64(step)
	}
	n := int(hi-first)/step + 1
	if n > e.cfg.SymIdxCap {
		e.unsupported("symbolic offset with %d candidate positions in %s", n, p.Obj.Name)
	}
	c := make([]int, 0, n)
	for o := int(first); o <= int(hi); o += step {
		c = append(c, o)
	}
	return -1, c
}

func (e *Exec) freshByte() *sym.Term {
	e.uninitCtr++
	return sym.Var(fmt.Sprintf("uninit!%d", e.uninitCtr), 8)
}

func (e *Exec) byteAt(o *Obj, i int) cell {
	c := o.B[i]
	if c.t == nil && c.p == nil {
		// never written: arbitrary content (memory garbage)
		c = cell{t: e.freshByte()}
		if !o.ReadOnly {
			o.B[i] = c
		}
	}
	return c
}

func (e *Exec) loadAt(o *Obj, off int, ty *Type) Val {
	switch ty.K {
	case TInt:
		n := ty.Size()
		if ty.Bits > 64 {
			e.unsupported("load of integer wider than 64 bits")
		}
		var t *sym.Term
		for i := n - 1; i >= 0; i-- {
			c := e.byteAt(o, off+i)
			if c.t == nil {
				// integer load of pointer bytes: only whole pointers are supported
				if n == 8 {
					if p := e.wholePtr(o, off); p != nil {
						return e.ptrToInt(p)
					}
				}
				e.unsupported("integer load (%s) of pointer bytes at %s+%d", ty, o.Name, off)
			}
			if t == nil {
				t = c.t
			} else {
				t = sym.Concat(t, c.t)
			}
		}
		if ty.Bits < n*8 {
			t = sym.Extract(t, ty.Bits-1, 0)
		}
		return t
	case TPtr, TFunc:
		if p := e.wholePtr(o, off); p != nil {
			return p
		}
		// integer bytes read as a pointer: null when all zero, else an integer-derived pointer
		var t *sym.Term
		for i := 7; i >= 0; i-- {
			c := e.byteAt(o, off+i)
			if c.t == nil {
				e.unsupported("load of a partially overwritten pointer")
			}
			if t == nil {
				t = c.t
			} else {
				t = sym.Concat(t, c.t)
			}
		}
		return &PtrVal{Off: t}
	case TStruct:
		a := &AggVal{}
		for i, f := range ty.Fields {
			a.E = append(a.E, e.loadAt(o, off+ty.FieldOffset(i), f))
		}
		return a
	case TArray:
		a := &AggVal{}
		for i := 0; i < ty.N; i++ {
			a.E = append(a.E, e.loadAt(o, off+i*ty.Elem.Size(), ty.Elem))
		}
		return a
	}
	e.unsupported("load of type %s", ty)
	return nil
}

func (e *Exec) hasPtrBytes(o *Obj, off, n int) bool {
	for i := 0; i < n; i++ {
		if o.B[off+i].p != nil {
			return true
		}
	}
	return false
}

func (e *Exec) wholePtr(o *Obj, off int) *PtrVal {
	c0 := o.B[off]
	if c0.p == nil || c0.idx != 0 {
		return nil
	}
	for i := 1; i < 8; i++ {
		c := o.B[off+i]
		if c.p != c0.p || int(c.idx) != i {
			return nil
		}
	}
	return c0.p
}

func (e *Exec) storeVal(o *Obj, off int, v Val, ty *Type) {
	switch x := v.(type) {
	case *sym.Term:
		n := ty.Size()
		t := x
		if t.W < n*8 {
			t = sym.ZExt(t, n*8)
		}
		for i := 0; i < n; i++ {
			o.B[off+i] = cell{t: sym.Extract(t, 8*i+7, 8*i)}
		}
	case *PtrVal:
		if x.Obj == nil && x.Fn == nil {
			for i := 0; i < 8; i++ {
				o.B[off+i] = cell{t: sym.Extract(x.Off, 8*i+7, 8*i)}
			}
			return
		}
		for i := 0; i < 8; i++ {
			o.B[off+i] = cell{p: x, idx: int8(i)}
		}
	case *AggVal:
		switch ty.K {
		case TStruct:
			for i, f := range ty.Fields {
				e.storeVal(o, off+ty.FieldOffset(i), x.E[i], f)
			}
		case TArray:
			for i := 0; i < ty.N; i++ {
				e.storeVal(o, off+i*ty.Elem.Size(), x.E[i], ty.Elem)
			}
		}
	default:
		e.unsupported("store of %T", v)
	}
}

func (e *Exec) load(p *PtrVal, ty *Type) Val {
	size := ty.Size()
	off, cands := e.access(p, size, "load")
	if cands == nil {
		return e.loadAt(p.Obj, off, ty)
	}
	if ty.K != TInt {
		k := e.concretize(p.Off)
		return e.loadAt(p.Obj, int(k), ty)
	}
	var res *sym.Term
	for i := len(cands) - 1; i >= 0; i-- {
		if e.hasPtrBytes(p.Obj, cands[i], size) {
			// a candidate position that holds pointer bytes: fine as long as the offset cannot be there
			if r, _ := e.feasible(sym.Eq(p.Off, sym.BV(uint64(cands[i]), 64))); r == sym.Unsat {
				continue
			}
		}
		v := asTerm(e.loadAt(p.Obj, cands[i], ty))
		if res == nil {
			res = v
		} else {
			res = sym.Ite(sym.Eq(p.Off, sym.BV(uint64(cands[i]), 64)), v, res)
		}
	}
	return res
}

func (e *Exec) store(p *PtrVal, v Val, ty *Type) {
	size := ty.Size()
	off, cands := e.access(p, size, "store")
	if p.Obj.ReadOnly {
		panic(pathEnd{"ub", "store to a constant (" + p.Obj.Name + ") @ " + e.stack()})
	}
	if cands == nil {
		e.storeVal(p.Obj, off, v, ty)
		return
	}
	t, ok := v.(*sym.Term)
	if !ok || len(cands) > 256 {
		k := e.concretize(p.Off)
		e.storeVal(p.Obj, int(k), v, ty)
		return
	}
	for _, c := range cands {
		old, isT := e.loadAt(p.Obj, c, ty).(*sym.Term)
		if !isT {
			e.unsupported("conditional store over pointer bytes")
		}
		e.storeVal(p.Obj, c, sym.Ite(sym.Eq(p.Off, sym.BV(uint64(c), 64)), t, old), ty)
	}
}

// ptrToInt: base_k + offset with one opaque base per object, so that differences of pointers
// into the same object reduce to offset differences.
func (e *Exec) ptrToInt(p *PtrVal) *sym.Term {
	if p.Obj == nil {
		if p.Fn != nil {
			return sym.Var("fnaddr!"+p.Fn.Name, 64)
		}
		return p.Off
	}
	return sym.Add(e.baseOf(p.Obj), p.Off)
}

func (e *Exec) baseOf(o *Obj) *sym.Term {
	if e.bases == nil {
		e.bases = map[*Obj]*sym.Term{}
	}
	if b, ok := e.bases[o]; ok {
		return b
	}
	b := sym.Var(fmt.Sprintf("base!%d", o.ID), 64)
	e.bases[o] = b
	// objects live in the low half of the address space, are non-null and leave room for their size
	e.pc = append(e.pc, sym.And(sym.UGE(b, sym.BV(4096, 64)), sym.ULE(b, sym.BV(1<<46, 64))))
	return b
}

// intToPtr recovers (object, offset) from base_k + off terms produced by ptrToInt.
func (e *Exec) intToPtr(t *sym.Term) *PtrVal {
	if t.IsConst() {
		return &PtrVal{Off: t}
	}
	for o, b := range e.bases {
		if d, ok := subtractBase(t, b); ok {
			return &PtrVal{Obj: o, Off: d}
		}
	}
	return &PtrVal{Off: t}
}

// subtractBase: t == b + d structurally?
func subtractBase(t, b *sym.Term) (*sym.Term, bool) {
	if t == b {
		return sym.BV(0, 64), true
	}
	if t.Op == sym.OpBVAdd {
		if t.Args[0] == b {
			return t.Args[1], true
		}
		if t.Args[1] == b {
			return t.Args[0], true
		}
		if d, ok := subtractBase(t.Args[0], b); ok {
			return sym.Add(d, t.Args[1]), true
		}
		if d, ok := subtractBase(t.Args[1], b); ok {
			return sym.Add(t.Args[0], d), true
		}
	}
	if t.Op == sym.OpBVSub {
		if d, ok := subtractBase(t.Args[0], b); ok {
			return sym.Sub(d, t.Args[1]), true
		}
	}
	return nil, false
}

func (e *Exec) ptrCmp(pred string, a, b *PtrVal) *sym.Term {
	if a.Fn != nil || b.Fn != nil {
		same := a.Fn == b.Fn && a.Obj == nil && b.Obj == nil
		switch pred {
		case "eq":
			return sym.Bool(same)
		case "ne":
			return sym.Bool(!same)
		}
		e.unsupported("ordering comparison of function pointers")
	}
	if a.Obj == b.Obj {
		return icmp(pred, a.Off, b.Off)
	}
	// different objects (or object vs null/integer): equal never holds for in-bounds pointers
	if a.Obj != nil && b.Obj != nil {
		switch pred {
		case "eq":
			return sym.False
		case "ne":
			return sym.True
		}
		return icmp(pred, e.ptrToInt(a), e.ptrToInt(b))
	}
	// one side is null or an integer
	switch pred {
	case "eq", "ne":
		var o, n *PtrVal = a, b
		if a.Obj == nil {
			o, n = b, a
		}
		if n.Off.IsConst() && n.Off.Val == 0 {
			_ = o
			return sym.Bool(pred == "ne")
		}
	}
	return icmp(pred, e.ptrToInt(a), e.ptrToInt(b))
}

func icmp(pred string, a, b *sym.Term) *sym.Term {
	switch pred {
	case "eq":
		return sym.Eq(a, b)
	case "ne":
		return sym.Not(sym.Eq(a, b))
	case "ult":
		return sym.ULT(a, b)
	case "ule":
		return sym.ULE(a, b)
	case "ugt":
		return sym.ULT(b, a)
	case "uge":
		return sym.ULE(b, a)
	case "slt":
		return sym.SLT(a, b)
	case "sle":
		return sym.SLE(a, b)
	case "sgt":
		return sym.SLT(b, a)
	case "sge":
		return sym.SLE(b, a)
	}
	panic("llsym: unknown icmp predicate " + pred)
}

// ---- arithmetic ----

func boolToBV(c *sym.Term) *sym.Term { return sym.Ite(c, sym.BV(1, 1), sym.BV(0, 1)) }
func bvToBool(t *sym.Term) *sym.Term {
	if t.W == 0 {
		return t
	}
	return sym.Eq(t, sym.BV(1, 1))
}

func (e *Exec) binop(op, flags string, av, bv Val, ty *Type) Val {
	// pointer arithmetic through integers (ptrtoint results) stays as terms
	a, b := asTerm(av), asTerm(bv)
	w := a.W
	switch op {
	case "add":
		return sym.Add(a, b)
	case "sub":
		return sym.Sub(a, b)
	case "mul":
		return sym.Mul(a, b)
	case "udiv", "urem", "sdiv", "srem":
		e.requireUB(sym.Not(sym.Eq(b, sym.BV(0, w))), "division by zero")
		switch op {
		case "udiv":
			return sym.UDiv(a, b)
		case "urem":
			return sym.URem(a, b)
		case "sdiv":
			return sym.SDiv(a, b)
		}
		return sym.SRem(a, b)
	case "and":
		return sym.BAnd(a, b)
	case "or":
		return sym.BOr(a, b)
	case "xor":
		return sym.BXor(a, b)
	case "shl", "lshr", "ashr":
		// a shift by >= width is poison; generated code guards its shifts, the harness reports a reachable one
		e.requireUB(sym.ULT(b, sym.BV(uint64(w), w)), "shift by at least the bit width")
		switch op {
		case "shl":
			return sym.Shl(a, b)
		case "lshr":
			return sym.LShr(a, b)
		}
		return sym.AShr(a, b)
	}
	e.unsupported("binary operator %s", op)
	return nil
}

func (e *Exec) cast(op string, v Val, from, to *Type) Val {
	switch op {
	case "bitcast", "addrspacecast":
		return v
	case "zext":
		return sym.ZExt(asTerm(v), to.Bits)
	case "sext":
		return sym.SExt(asTerm(v), to.Bits)
	case "trunc":
		return sym.Extract(asTerm(v), to.Bits-1, 0)
	case "ptrtoint":
		t := e.ptrToInt(v.(*PtrVal))
		return sym.Resize(t, to.Bits, false)
	case "inttoptr":
		return e.intToPtr(sym.Resize(asTerm(v), 64, false))
	}
	e.unsupported("cast %s", op)
	return nil
}

// cString reads a NUL-terminated constant string.
func (e *Exec) cString(v Val) string {
	p, ok := v.(*PtrVal)
	if !ok || p.Obj == nil || !p.Off.IsConst() {
		e.unsupported("harness label must be a constant string")
	}
	var sb strings.Builder
	for i := int(p.Off.Val); i < p.Obj.Size; i++ {
		c := p.Obj.B[i]
		if c.t == nil || !c.t.IsConst() {
			e.unsupported("harness label must be a constant string")
		}
		if c.t.Val == 0 {
			break
		}
		sb.WriteByte(byte(c.t.Val))
	}
	return sb.String()
}
