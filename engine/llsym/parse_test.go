package llsym

import (
	"os"
	"testing"
)

func TestParseProbe(t *testing.T) {
	p := os.Getenv("LL_FILE")
	if p == "" {
		t.Skip("LL_FILE not set")
	}
	m, err := ParseFile(p)
	if err != nil {
		t.Fatal(err)
	}
	n := 0
	for _, name := range m.Order {
		f := m.Funcs[name]
		func() {
			defer func() {
				if r := recover(); r != nil {
					t.Errorf("%s: %v", name, r)
				}
			}()
			m.parseBody(f)
		}()
		n += f.NInstr
	}
	t.Logf("%d functions, %d instructions, %d globals, %d types", len(m.Order), n, len(m.Globals), len(m.Types))
}

func TestRunProbe(t *testing.T) {
	p := os.Getenv("LL_FILE")
	fn := os.Getenv("LL_FUNC")
	if p == "" || fn == "" {
		t.Skip("LL_FILE/LL_FUNC not set")
	}
	m, err := ParseFile(p)
	if err != nil {
		t.Fatal(err)
	}
	cfg := DefaultConfig()
	res := Run(m, fn, cfg, 8)
	t.Logf("paths=%d ends=%v queries=%d steps=%d wall=%.1fs", res.Paths, res.Ends, res.Queries, res.Steps, res.Wall)
	t.Logf("checks=%v reached=%v", res.Checks, res.Reached)
	for _, v := range res.Violations {
		t.Logf("VIOLATION %s %s %v", v.Kind, v.Label, v.Model)
	}
	for _, s := range res.Incomplete {
		t.Logf("INCOMPLETE %s", s)
	}
	for _, s := range res.Internal {
		t.Logf("INTERNAL %s", s)
	}
}
