package llsym

import (
	"fmt"
	"os"
	"sync/atomic"
	"runtime/debug"
	"sort"
	"strings"
	"sync"
	"time"

	"verif/engine/sym"
)

// ---- values ----

type Val interface{}

type PtrVal struct {
	Obj *Obj      // nil: null (or an integer cast to a pointer)
	Off *sym.Term // 64-bit
	Fn  *Func     // function pointer
	Lim *sym.Term // when set: end offset (exclusive) of the innermost array this pointer was derived from by indexing
}

type AggVal struct{ E []Val }

type UndefVal struct{ W int }

var nullPtr = &PtrVal{Off: sym.BV(0, 64)}

// ---- memory ----

type cell struct {
	t   *sym.Term // 8-bit value, or nil when the byte is a pointer fragment / uninitialised
	p   *PtrVal   // pointer fragment
	idx int8
}

type Obj struct {
	ID       int
	Size     int
	B        []cell
	Name     string
	ReadOnly bool
	Dead     bool
	Uninit   bool // bytes never written read as fresh symbolic garbage
}

// ---- configuration and results ----

type Config struct {
	Unwind       int
	MaxSteps     int64
	MaxDepth     int
	FeasTimeout  int
	CheckTimeout int
	ConcCap      int
	SymIdxCap    int // max candidate positions for a symbolic-offset access
	Deadline     time.Time
	Params       map[string]int
	Spec         func() SpecPath // reference semantics behind verif_spec_* (translation validation)
}

// SpecPath is the per-path state of a reference interpreter the harness talks to through
// verif_spec_reset/set/get/call. Values are 64-bit terms (booleans 0/1).
type SpecPath interface {
	Reset(structName string) error
	Set(field string, idx uint64, v *sym.Term) error
	Get(field string, idx uint64) (*sym.Term, error)
	Call(fn string, args []*sym.Term, obligation func(c *sym.Term, label string)) (*sym.Term, error)
}

func DefaultConfig() Config {
	return Config{Unwind: 64, MaxSteps: 20_000_000, MaxDepth: 64, FeasTimeout: 5000, CheckTimeout: 60000, ConcCap: 300, SymIdxCap: 4096}
}

type NondetVal struct {
	Name string `json:"name"`
	W    int    `json:"w"`
	Val  uint64 `json:"val"`
}

type Violation struct {
	Label string
	Kind  string // "check", "ub", "hang"
	Model []NondetVal
	Stack string
}

type Result struct {
	Paths      int
	Ends       map[string]int
	Checks     map[string]map[string]int
	Violations []Violation
	Reached    map[string]int
	ReachModel map[string][]NondetVal
	Incomplete []string
	IncompleteM [][]NondetVal
	Queries    int
	Steps      int64
	Wall       float64
	Funcs      map[string]int
	Internal   []string
}

type decision struct {
	taken  bool
	hasVal bool
	val    uint64
}

type work struct {
	prefix []decision
	model  map[string]uint64
}

type pathEnd struct {
	kind string // "return", "infeasible", "ub", "unwind", "steps", "unsupported", "concretize"
	msg  string
}

type frame struct {
	fn      *Func
	regs    map[string]Val
	ifCount map[*Instr]int
	allocas []*Obj
	caller  *frame
}

type Exec struct {
	m      *Module
	cfg    Config
	S      *sym.Solver
	pc     []*sym.Term
	flushed int
	epoch  int
	prefix []decision
	pos    int
	trace  []decision
	alts   []work
	mdl    map[string]uint64
	mdlOK  bool
	mdlMemo map[*sym.Term]uint64
	nondets []*sym.Term
	ndCount map[string]int
	globals map[string]*Obj
	nextObj int
	steps   int64
	depth   int
	cur     *frame
	queries int
	checks  []checkRec
	reached []string
	uninitCtr int
	spec    SpecPath
	fnSeen  map[string]bool
	bases   map[*Obj]*sym.Term
	curBlock string
}

type checkRec struct {
	label, verdict string
	model          []NondetVal
	stack          string
}

func (e *Exec) end(kind, format string, a ...interface{}) {
	panic(pathEnd{kind, fmt.Sprintf(format, a...)})
}

func (e *Exec) unsupported(format string, a ...interface{}) {
	panic(pathEnd{"unsupported", fmt.Sprintf(format, a...) + " @ " + e.stack()})
}

func (e *Exec) stack() string {
	var sb strings.Builder
	n := 0
	for fr := e.cur; fr != nil && n < 10; fr = fr.caller {
		sb.WriteString(fr.fn.Name)
		sb.WriteString(" <- ")
		n++
	}
	return sb.String()
}

// ---- path condition (same discipline as gossa: decision prefixes, re-execution) ----

func (e *Exec) flush() {
	if e.S.Epoch != e.epoch {
		e.epoch = e.S.Epoch
		e.flushed = 0
	}
	for ; e.flushed < len(e.pc); e.flushed++ {
		e.S.Assert(e.pc[e.flushed])
	}
}

func (e *Exec) setModel(m map[string]uint64) {
	e.mdl, e.mdlOK, e.mdlMemo = m, m != nil, map[*sym.Term]uint64{}
}

func (e *Exec) evalModel(c *sym.Term) (bool, bool) {
	if !e.mdlOK {
		return false, false
	}
	v, ok := sym.Eval(c, e.mdl, e.mdlMemo)
	return v == 1, ok
}

func (e *Exec) addPC(c *sym.Term) {
	if c.IsTrue() {
		return
	}
	e.pc = append(e.pc, c)
	if e.mdlOK {
		if v, ok := e.evalModel(c); !ok || !v {
			e.mdlOK = false
		}
	}
}

func (e *Exec) oneShot(extra *sym.Term, vars []*sym.Term, timeoutMs int) (sym.Result, map[string]uint64) {
	asserts := append(append([]*sym.Term{}, e.pc...), extra)
	e.queries++
	return sym.RunScriptModel(sym.Primary(), sym.ScriptWithModel(asserts, vars), time.Duration(timeoutMs)*time.Millisecond, vars)
}

func (e *Exec) feasible(c *sym.Term) (sym.Result, map[string]uint64) {
	e.flush()
	e.queries++
	to := e.cfg.FeasTimeout
	if to > 2000 {
		to = 2000
	}
	r, m := e.S.Check(c, to, e.nondets)
	if r == sym.Unknown {
		r, m = e.oneShot(c, e.nondets, e.cfg.FeasTimeout)
	}
	if r == sym.Sat && m == nil {
		m = map[string]uint64{}
	}
	return r, m
}

var ForkSites sync.Map

func (e *Exec) queueAlt(d decision, m map[string]uint64) {
	if os.Getenv("VERIF_FORKS") != "" && e.cur != nil {
		key := e.cur.fn.Name + "/" + e.curBlock
		v, _ := ForkSites.LoadOrStore(key, new(int64))
		atomic.AddInt64(v.(*int64), 1)
	}
	alt := make([]decision, len(e.trace)+1)
	copy(alt, e.trace)
	alt[len(e.trace)] = d
	e.alts = append(e.alts, work{prefix: alt, model: m})
}

func (e *Exec) branch(c *sym.Term) bool {
	if c.IsConst() {
		return c.Val == 1
	}
	if e.pos < len(e.prefix) {
		d := e.prefix[e.pos]
		e.pos++
		e.trace = append(e.trace, d)
		if d.taken {
			e.addPC(c)
		} else {
			e.addPC(sym.Not(c))
		}
		return d.taken
	}
	e.pos++
	if !e.cfg.Deadline.IsZero() && time.Now().After(e.cfg.Deadline) {
		e.end("steps", "wall-clock deadline reached inside a path")
	}
	nc := sym.Not(c)
	if v, ok := e.evalModel(c); ok {
		if v {
			r, m := e.feasible(nc)
			if r != sym.Unsat {
				e.queueAlt(decision{taken: false}, m)
			}
			e.trace = append(e.trace, decision{taken: true})
			e.addPC(c)
			return true
		}
		r, m := e.feasible(c)
		if r == sym.Unsat {
			e.trace = append(e.trace, decision{taken: false})
			e.addPC(nc)
			return false
		}
		e.queueAlt(decision{taken: false}, e.mdl)
		e.trace = append(e.trace, decision{taken: true})
		if r == sym.Sat {
			e.setModel(m)
		} else {
			e.mdlOK = false
		}
		e.addPC(c)
		return true
	}
	rt, mt := e.feasible(c)
	if rt == sym.Unsat {
		e.trace = append(e.trace, decision{taken: false})
		e.addPC(nc)
		return false
	}
	rf, mf := e.feasible(nc)
	if rf != sym.Unsat {
		e.queueAlt(decision{taken: false}, mf)
	}
	e.trace = append(e.trace, decision{taken: true})
	if rt == sym.Sat {
		e.setModel(mt)
	}
	e.addPC(c)
	return true
}

func (e *Exec) assume(c *sym.Term) {
	if c.IsConst() {
		if c.Val == 0 {
			e.end("infeasible", "assume(false)")
		}
		return
	}
	if e.pos < len(e.prefix) {
		d := e.prefix[e.pos]
		e.pos++
		e.trace = append(e.trace, d)
		e.addPC(c)
		return
	}
	e.pos++
	if v, ok := e.evalModel(c); !ok || !v {
		r, m := e.feasible(c)
		if r == sym.Unsat {
			e.end("infeasible", "assumption unsatisfiable")
		}
		if r == sym.Sat {
			e.setModel(m)
		} else {
			e.mdlOK = false
		}
	}
	e.trace = append(e.trace, decision{taken: true})
	e.addPC(c)
}

func (e *Exec) concretize(t *sym.Term) uint64 {
	if t.IsConst() {
		return t.Val
	}
	for n := 0; ; n++ {
		if n > e.cfg.ConcCap {
			e.end("concretize", "more than %d values at a concretisation site @ %s", e.cfg.ConcCap, e.stack())
		}
		if e.pos < len(e.prefix) {
			d := e.prefix[e.pos]
			e.pos++
			e.trace = append(e.trace, d)
			c := sym.Eq(t, sym.BV(d.val, t.W))
			if d.taken {
				e.addPC(c)
				return d.val
			}
			e.addPC(sym.Not(c))
			continue
		}
		e.flush()
		e.queries++
		probe := sym.Var(fmt.Sprintf("conc!%d", t.ID), t.W)
		r, m := e.S.Check(sym.Eq(probe, t), e.cfg.FeasTimeout, []*sym.Term{probe})
		if r == sym.Unknown {
			r, m = e.oneShot(sym.Eq(probe, t), []*sym.Term{probe}, e.cfg.CheckTimeout)
		}
		if r != sym.Sat {
			if r == sym.Unsat {
				e.end("infeasible", "no value left")
			}
			e.unsupported("solver gave no model for concretisation")
		}
		v := m[probe.Name]
		e.pos++
		c := sym.Eq(t, sym.BV(v, t.W))
		e.queries++
		r2, _ := e.S.Check(sym.Not(c), e.cfg.FeasTimeout, nil)
		if r2 != sym.Unsat {
			e.queueAlt(decision{taken: false, hasVal: true, val: v}, nil)
		}
		e.trace = append(e.trace, decision{taken: true, hasVal: true, val: v})
		e.addPC(c)
		return v
	}
}

// uniq replaces t by a constant when the path condition implies a single value.
func (e *Exec) uniq(t *sym.Term) *sym.Term {
	if t.IsConst() || t.D < 3 {
		return t
	}
	if e.pos < len(e.prefix) {
		d := e.prefix[e.pos]
		e.pos++
		e.trace = append(e.trace, d)
		if d.taken {
			return sym.BV(d.val, t.W)
		}
		return t
	}
	e.pos++
	var v uint64
	have := false
	if e.mdlOK {
		if x, ok := sym.Eval(t, e.mdl, e.mdlMemo); ok {
			v, have = x, true
		}
	}
	if !have {
		e.flush()
		e.queries++
		probe := sym.Var(fmt.Sprintf("uniq!%d", t.ID), t.W)
		r, m := e.S.Check(sym.Eq(probe, t), e.cfg.FeasTimeout, append([]*sym.Term{probe}, e.nondets...))
		if r != sym.Sat {
			e.trace = append(e.trace, decision{})
			return t
		}
		v = m[probe.Name]
		delete(m, probe.Name)
		e.setModel(m)
	}
	r, _ := e.feasible(sym.Not(sym.Eq(t, sym.BV(v, t.W))))
	if r == sym.Unsat {
		e.trace = append(e.trace, decision{taken: true, hasVal: true, val: v})
		return sym.BV(v, t.W)
	}
	e.trace = append(e.trace, decision{})
	return t
}

func (e *Exec) modelFrom(m map[string]uint64) []NondetVal {
	out := make([]NondetVal, len(e.nondets))
	for i, v := range e.nondets {
		out[i] = NondetVal{Name: v.Name, W: v.W, Val: m[v.Name]}
	}
	return out
}

func (e *Exec) model() []NondetVal {
	e.flush()
	e.queries++
	r, m := e.S.Check(nil, 10000, e.nondets)
	if r == sym.Unknown {
		r, m = e.oneShot(sym.True, e.nondets, e.cfg.CheckTimeout)
	}
	if r != sym.Sat {
		return nil
	}
	return e.modelFrom(m)
}

func (e *Exec) check(c *sym.Term, label string) {
	rec := checkRec{label: label}
	if c.IsTrue() {
		rec.verdict = "discharged"
		e.checks = append(e.checks, rec)
		return
	}
	e.flush()
	e.queries++
	neg := sym.Not(c)
	r, m := e.S.Check(neg, 4000, e.nondets)
	if r == sym.Unknown {
		r, m = e.oneShot(neg, e.nondets, e.cfg.CheckTimeout)
	}
	switch r {
	case sym.Unsat:
		rec.verdict = "discharged"
		e.pc = append(e.pc, c)
	case sym.Sat:
		rec.verdict = "violated"
		rec.model = e.modelFrom(m)
		rec.stack = e.stack()
	default:
		rec.verdict = "unknown"
	}
	e.checks = append(e.checks, rec)
	if r == sym.Sat {
		e.assume(c)
	}
}

// ub reports undefined behaviour reachable on this path when cond can be false.
func (e *Exec) requireUB(ok *sym.Term, what string) {
	if ok.IsTrue() {
		return
	}
	if !e.branch(ok) {
		panic(pathEnd{"ub", what + " @ " + e.stack()})
	}
}

func (e *Exec) nondet(name string, w int) *sym.Term {
	k := e.ndCount[name]
	e.ndCount[name] = k + 1
	v := sym.Var(fmt.Sprintf("%s#%d", name, k), w)
	e.nondets = append(e.nondets, v)
	return v
}

// ---- driver ----

func Run(m *Module, fnName string, cfg Config, workers int) *Result {
	res := &Result{Ends: map[string]int{}, Checks: map[string]map[string]int{}, Reached: map[string]int{}, ReachModel: map[string][]NondetVal{}, Funcs: map[string]int{}}
	fn := m.Funcs[fnName]
	if fn == nil || fn.Declared {
		res.Internal = append(res.Internal, "harness function not found: "+fnName)
		return res
	}
	// parse everything reachable lazily but under a lock
	t0 := time.Now()
	var mu sync.Mutex
	cond := sync.NewCond(&mu)
	queue := []work{{}}
	active := 0
	seen := map[string]bool{}
	var wg sync.WaitGroup
	for w := 0; w < workers; w++ {
		wg.Add(1)
		go func() {
			defer wg.Done()
			s, err := sym.NewSolver(sym.Primary())
			if err != nil {
				mu.Lock()
				res.Internal = append(res.Internal, "cannot start solver: "+err.Error())
				mu.Unlock()
				return
			}
			defer s.Close()
			for {
				mu.Lock()
				for len(queue) == 0 && active > 0 {
					cond.Wait()
				}
				if len(queue) == 0 && active == 0 {
					mu.Unlock()
					cond.Broadcast()
					return
				}
				wk := queue[len(queue)-1]
				queue = queue[:len(queue)-1]
				active++
				mu.Unlock()

				var end pathEnd
				var e *Exec
				var internal string
				var mdl []NondetVal
				if !cfg.Deadline.IsZero() && time.Now().After(cfg.Deadline) {
					end = pathEnd{"steps", "wall-clock deadline reached before this path was explored"}
					e = &Exec{}
				} else {
					e, end, internal, mdl = runPath(m, fn, cfg, s, wk)
				}

				mu.Lock()
				active--
				queue = append(queue, e.alts...)
				res.Paths++
				res.Queries += e.queries
				res.Steps += e.steps
				res.Ends[end.kind]++
				for f := range e.fnSeen {
					res.Funcs[f] = m.Funcs[f].NInstr
				}
				if internal != "" {
					res.Internal = append(res.Internal, internal)
				}
				for _, c := range e.checks {
					if res.Checks[c.label] == nil {
						res.Checks[c.label] = map[string]int{}
					}
					res.Checks[c.label][c.verdict]++
					if c.verdict == "violated" && !seen["check|"+c.label] {
						seen["check|"+c.label] = true
						res.Violations = append(res.Violations, Violation{Label: c.label, Kind: "check", Model: c.model, Stack: c.stack})
					}
					if c.verdict == "unknown" {
						res.Incomplete = append(res.Incomplete, "unknown: solver returned unknown for check "+c.label)
						res.IncompleteM = append(res.IncompleteM, nil)
					}
				}
				for _, r := range e.reached {
					res.Reached[r]++
					if _, ok := res.ReachModel[r]; !ok && mdl != nil {
						res.ReachModel[r] = mdl
					}
				}
				switch end.kind {
				case "ub":
					key := "ub|" + end.msg
					if !seen[key] {
						seen[key] = true
						res.Violations = append(res.Violations, Violation{Label: end.msg, Kind: "ub", Model: mdl, Stack: end.msg})
					}
				case "unwind", "steps", "unsupported", "concretize":
					if len(res.Incomplete) < 60 {
						res.Incomplete = append(res.Incomplete, end.kind+": "+end.msg)
						res.IncompleteM = append(res.IncompleteM, mdl)
					}
				}
				mu.Unlock()
				cond.Broadcast()
			}
		}()
	}
	wg.Wait()
	res.Wall = time.Since(t0).Seconds()
	sort.Strings(res.Incomplete)
	return res
}

var parseMu sync.Mutex

func runPath(m *Module, fn *Func, cfg Config, s *sym.Solver, wk work) (e *Exec, end pathEnd, internal string, mdl []NondetVal) {
	s.Reset()
	e = &Exec{m: m, cfg: cfg, S: s, prefix: wk.prefix, ndCount: map[string]int{}, globals: map[string]*Obj{}, fnSeen: map[string]bool{}}
	if wk.model != nil {
		e.setModel(wk.model)
	} else {
		e.setModel(map[string]uint64{})
	}
	needModel := false
	func() {
		defer func() {
			r := recover()
			if r == nil {
				end = pathEnd{"return", ""}
				needModel = len(e.reached) > 0
				return
			}
			switch x := r.(type) {
			case pathEnd:
				end = x
				needModel = x.kind == "ub" || x.kind == "unwind" || x.kind == "steps"
			default:
				end = pathEnd{"unsupported", fmt.Sprintf("internal error: %v", r)}
				internal = fmt.Sprintf("internal error in %s: %v\n%s", fn.Name, r, debug.Stack())
			}
		}()
		e.call(fn, nil)
	}()
	if needModel && internal == "" {
		func() {
			defer func() {
				if r := recover(); r != nil {
					internal = fmt.Sprintf("internal error computing model: %v", r)
				}
			}()
			mdl = e.model()
			if mdl == nil && end.kind == "ub" && len(e.nondets) > 0 {
				end = pathEnd{"unsupported", "undefined-behaviour path without model (solver unknown): " + end.msg}
			}
		}()
	}
	return
}
