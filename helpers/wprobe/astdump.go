package main

// wprobe ast <file.wuffs>: tokenizes, parses and type-checks the file with the tree's front end
// and prints the checked AST of its structs and functions as JSON (for engine/wuffsym, the
// engine's own interpreter of Wuffs semantics used for translation validation, C04).

import (
	"encoding/json"
	"fmt"
	"os"

	a "github.com/google/wuffs/lang/ast"
	"github.com/google/wuffs/lang/check"
	"github.com/google/wuffs/lang/parse"
	t "github.com/google/wuffs/lang/token"
)

type jm = map[string]interface{}

func dumpType(tm *t.Map, x *a.TypeExpr) jm {
	if x == nil {
		return nil
	}
	r := jm{"str": x.Str(tm)}
	switch {
	case x.IsBool():
		r["k"] = "bool"
	case x.IsNumType():
		r["k"] = "num"
		r["name"] = x.QID()[1].Str(tm)
		if b := x.Bounds(); b[0] != nil && b[0].ConstValue() != nil {
			r["min"] = b[0].ConstValue().String()
		}
		if b := x.Bounds(); b[1] != nil && b[1].ConstValue() != nil {
			r["max"] = b[1].ConstValue().String()
		}
	case x.Decorator() == t.IDArray:
		r["k"] = "array"
		if cv := x.ArrayLength().ConstValue(); cv != nil {
			r["len"] = cv.String()
		}
		r["elem"] = dumpType(tm, x.Inner())
	case x.IsIdeal():
		r["k"] = "ideal"
	default:
		r["k"] = "other"
	}
	return r
}

func dumpExpr(tm *t.Map, x *a.Expr) jm {
	if x == nil {
		return nil
	}
	r := jm{"type": dumpType(tm, x.MType()), "str": x.Str(tm)}
	if cv := x.ConstValue(); cv != nil {
		r["const"] = cv.String()
		return r
	}
	op := x.Operator()
	switch {
	case op == 0:
		r["op"] = "ident"
		r["ident"] = x.Ident().Str(tm)
	case op == a.ExprOperatorSelector:
		r["op"] = "."
		r["lhs"] = dumpExpr(tm, x.LHS().AsExpr())
		r["ident"] = x.Ident().Str(tm)
	case op == a.ExprOperatorIndex:
		r["op"] = "index"
		r["lhs"] = dumpExpr(tm, x.LHS().AsExpr())
		r["rhs"] = dumpExpr(tm, x.RHS().AsExpr())
	case op == a.ExprOperatorSlice:
		r["op"] = "slice"
		r["lhs"] = dumpExpr(tm, x.LHS().AsExpr())
		if x.MHS() != nil {
			r["mhs"] = dumpExpr(tm, x.MHS().AsExpr())
		}
		if x.RHS() != nil {
			r["rhs"] = dumpExpr(tm, x.RHS().AsExpr())
		}
	case op == a.ExprOperatorCall:
		r["op"] = "call"
		r["lhs"] = dumpExpr(tm, x.LHS().AsExpr())
		r["effect"] = x.Effect().String()
		var args []jm
		for _, o := range x.Args() {
			args = append(args, jm{"name": o.AsArg().Name().Str(tm), "value": dumpExpr(tm, o.AsArg().Value())})
		}
		r["args"] = args
	case op == t.IDXBinaryAs:
		r["op"] = "as"
		r["lhs"] = dumpExpr(tm, x.LHS().AsExpr())
		r["totype"] = dumpType(tm, x.RHS().AsTypeExpr())
	case op.IsUnaryOp():
		r["op"] = "unary"
		r["sym"] = op.AmbiguousForm().Str(tm)
		r["rhs"] = dumpExpr(tm, x.RHS().AsExpr())
	case op.IsBinaryOp():
		r["op"] = "binary"
		r["sym"] = op.AmbiguousForm().Str(tm)
		r["lhs"] = dumpExpr(tm, x.LHS().AsExpr())
		r["rhs"] = dumpExpr(tm, x.RHS().AsExpr())
	case op.IsAssociativeOp():
		r["op"] = "assoc"
		r["sym"] = op.AmbiguousForm().Str(tm)
		var args []jm
		for _, o := range x.Args() {
			args = append(args, dumpExpr(tm, o.AsExpr()))
		}
		r["args"] = args
	default:
		r["op"] = "unsupported"
	}
	return r
}

func dumpBody(tm *t.Map, body []*a.Node) []jm {
	out := []jm{}
	for _, o := range body {
		switch o.Kind() {
		case a.KAssert:
			// assertions have no run-time meaning
		case a.KVar:
			out = append(out, jm{"s": "var", "name": o.AsVar().Name().Str(tm), "type": dumpType(tm, o.AsVar().XType())})
		case a.KAssign:
			n := o.AsAssign()
			out = append(out, jm{"s": "assign", "op": n.Operator().Str(tm), "lhs": dumpExpr(tm, n.LHS()), "rhs": dumpExpr(tm, n.RHS())})
		case a.KIf:
			out = append(out, dumpIf(tm, o.AsIf()))
		case a.KWhile:
			n := o.AsWhile()
			out = append(out, jm{"s": "while", "label": n.Label().Str(tm), "cond": dumpExpr(tm, n.Condition()), "body": dumpBody(tm, n.Body())})
		case a.KJump:
			n := o.AsJump()
			out = append(out, jm{"s": "jump", "kw": n.Keyword().Str(tm), "label": n.Label().Str(tm)})
		case a.KRet:
			n := o.AsRet()
			out = append(out, jm{"s": "ret", "kw": n.Keyword().Str(tm), "value": dumpExpr(tm, n.Value())})
		default:
			out = append(out, jm{"s": "unsupported", "what": o.Kind().String()})
		}
	}
	return out
}

func dumpIf(tm *t.Map, n *a.If) jm {
	r := jm{"s": "if", "cond": dumpExpr(tm, n.Condition()), "then": dumpBody(tm, n.BodyIfTrue())}
	if ei := n.ElseIf(); ei != nil {
		r["else"] = []jm{dumpIf(tm, ei)}
	} else {
		r["else"] = dumpBody(tm, n.BodyIfFalse())
	}
	return r
}

func dumpAST(path string) {
	src, err := os.ReadFile(path)
	if err != nil {
		fmt.Fprintln(os.Stderr, err)
		os.Exit(2)
	}
	tm := &t.Map{}
	tokens, _, err := t.Tokenize(tm, path, src)
	if err != nil {
		fmt.Fprintln(os.Stderr, "tokenize:", err)
		os.Exit(1)
	}
	f, err := parse.Parse(tm, path, tokens, nil)
	if err != nil {
		fmt.Fprintln(os.Stderr, "parse:", err)
		os.Exit(1)
	}
	if _, err = check.Check(tm, []*a.File{f}, nil); err != nil {
		fmt.Fprintln(os.Stderr, "check:", err)
		os.Exit(1)
	}
	out := jm{}
	var structs, funcs []jm
	for _, d := range f.TopLevelDecls() {
		switch d.Kind() {
		case a.KStruct:
			s := d.AsStruct()
			var fields []jm
			for _, fl := range s.Fields() {
				fields = append(fields, jm{"name": fl.AsField().Name().Str(tm), "type": dumpType(tm, fl.AsField().XType())})
			}
			structs = append(structs, jm{"name": s.QID()[1].Str(tm), "fields": fields})
		case a.KFunc:
			fn := d.AsFunc()
			var args []jm
			for _, fl := range fn.In().Fields() {
				args = append(args, jm{"name": fl.AsField().Name().Str(tm), "type": dumpType(tm, fl.AsField().XType())})
			}
			funcs = append(funcs, jm{"name": fn.FuncName().Str(tm), "recv": fn.Receiver()[1].Str(tm), "effect": fn.Effect().String(),
				"public": fn.Public(), "args": args, "out": dumpType(tm, fn.Out()), "body": dumpBody(tm, fn.Body())})
		}
	}
	out["structs"] = structs
	out["funcs"] = funcs
	enc := json.NewEncoder(os.Stdout)
	enc.Encode(out)
}
