// wprobe is built by vcheck at check time against /repo's working tree (module replace) and
// runs the real Wuffs front end natively on probe programs.
//
//	wprobe axioms <path to lang/check/data.go>
//
// For every entry of the checker's reasons table it finds out, by running check.Check on a
// small program and feeding back each "cannot prove" premise as an enclosing `if`, which
// premises the CODE demands before it accepts `assert <conclusion> via "<axiom>"(...)`.
package main

import (
	"encoding/json"
	"fmt"
	"os"
	"regexp"
	"runtime"
	"sort"
	"strings"
	"sync"

	a "github.com/google/wuffs/lang/ast"
	"github.com/google/wuffs/lang/check"
	"github.com/google/wuffs/lang/parse"
	t "github.com/google/wuffs/lang/token"
)

type axiomResult struct {
	Axiom        string   `json:"axiom"`
	Conclusion   string   `json:"conclusion"`
	DocPremises  []string `json:"doc_premises"`
	CodePremises []string `json:"code_premises"`
	Accepted     bool     `json:"accepted"`
	Rounds       int      `json:"rounds"`
	Log          []string `json:"log,omitempty"`
	Program      string   `json:"program,omitempty"`
}

var identRE = regexp.MustCompile(`\b[a-z][0-9]?\b`)

func checkProgram(src string) error {
	tm := &t.Map{}
	tokens, _, err := t.Tokenize(tm, "probe.wuffs", []byte(src))
	if err != nil {
		return fmt.Errorf("tokenize: %v", err)
	}
	f, err := parse.Parse(tm, "probe.wuffs", tokens, nil)
	if err != nil {
		return fmt.Errorf("parse: %v", err)
	}
	_, err = check.Check(tm, []*a.File{f}, nil)
	return err
}

func qualify(e string) string {
	return identRE.ReplaceAllStringFunc(e, func(s string) string { return "args." + s })
}

func program(axiom, conclusion string, vars, extra []string, premises []string) string {
	var sb strings.Builder
	sb.WriteString("pub struct foo?()\n\npri func foo.bar(")
	for i, v := range vars {
		if i > 0 {
			sb.WriteString(", ")
		}
		fmt.Fprintf(&sb, "%s: base.i32[-1000 ..= 1000]", v)
	}
	sb.WriteString(") {\n")
	for _, p := range premises {
		fmt.Fprintf(&sb, "if %s {\n", p)
	}
	fmt.Fprintf(&sb, "assert %s via %s(", qualify(conclusion), axiom)
	for i, v := range extra {
		if i > 0 {
			sb.WriteString(", ")
		}
		fmt.Fprintf(&sb, "%s: args.%s", v, v)
	}
	sb.WriteString(")\n")
	for range premises {
		sb.WriteString("}\n")
	}
	sb.WriteString("}\n")
	return sb.String()
}

var cannotProve = regexp.MustCompile(`cannot prove "([^"]+)"`)

func probeAxiom(axiom string) axiomResult {
	res := axiomResult{Axiom: axiom}
	body := strings.Trim(axiom, `"`)
	colon := strings.Index(body, ":")
	res.Conclusion = strings.TrimSpace(body[:colon])
	for _, p := range strings.Split(body[colon+1:], ";") {
		if p = strings.TrimSpace(p); p != "" {
			res.DocPremises = append(res.DocPremises, p)
		}
	}
	seen := map[string]bool{}
	var vars, extra []string
	for _, v := range identRE.FindAllString(res.Conclusion, -1) {
		if !seen[v] {
			seen[v] = true
			vars = append(vars, v)
		}
	}
	inConclusion := len(vars)
	for _, p := range res.DocPremises {
		for _, v := range identRE.FindAllString(p, -1) {
			if !seen[v] {
				seen[v] = true
				vars = append(vars, v)
			}
		}
	}
	extra = append(extra, vars[inConclusion:]...)
	sort.Strings(extra)
	var premises []string
	for round := 0; round < 8; round++ {
		res.Rounds = round + 1
		src := program(axiom, res.Conclusion, vars, extra, premises)
		res.Program = src
		err := checkProgram(src)
		if err == nil {
			res.Accepted = true
			break
		}
		msg := err.Error()
		res.Log = append(res.Log, msg)
		// "cannot prove <assert condition>: cannot prove <premise>: failed at ...": the last one is the unmet premise
		all := cannotProve.FindAllStringSubmatch(msg, -1)
		if len(all) < 2 {
			break
		}
		m := all[len(all)-1]
		dup := false
		for _, p := range premises {
			if p == m[1] {
				dup = true
			}
		}
		if dup {
			break
		}
		premises = append(premises, m[1])
	}
	for _, p := range premises {
		res.CodePremises = append(res.CodePremises, strings.ReplaceAll(p, "args.", ""))
	}
	return res
}

type factsResult struct {
	Reached bool     `json:"reached"` // the checker got as far as the probe (assert false)
	Error   string   `json:"error"`
	Facts   []string `json:"facts"`
}

// probeFacts runs check.Check on each program; a program whose only complaint is the probe
// `assert false` yields the checker's fact list at that point (check.Error.Facts).
func probeFacts(path string) {
	b, err := os.ReadFile(path)
	if err != nil {
		fmt.Fprintln(os.Stderr, err)
		os.Exit(2)
	}
	var progs []string
	if err := json.Unmarshal(b, &progs); err != nil {
		fmt.Fprintln(os.Stderr, err)
		os.Exit(2)
	}
	out := make([]factsResult, len(progs))
	var wg sync.WaitGroup
	sem := make(chan struct{}, runtime.NumCPU())
	for i, src := range progs {
		wg.Add(1)
		sem <- struct{}{}
		go func(i int, src string) {
			defer wg.Done()
			defer func() { <-sem }()
			probeOne(&out[i], src)
		}(i, src)
	}
	wg.Wait()
	enc := json.NewEncoder(os.Stdout)
	enc.Encode(out)
}

func probeOne(res *factsResult, src string) {
	out := []*factsResult{res}
	for i := 0; i < 1; i++ {
		tm := &t.Map{}
		tokens, _, err := t.Tokenize(tm, "probe.wuffs", []byte(src))
		if err != nil {
			out[i].Error = "tokenize: " + err.Error()
			continue
		}
		f, err := parse.Parse(tm, "probe.wuffs", tokens, nil)
		if err != nil {
			out[i].Error = "parse: " + err.Error()
			continue
		}
		_, err = check.Check(tm, []*a.File{f}, nil)
		if err == nil {
			out[i].Error = "accepted (probe not reached?)"
			continue
		}
		out[i].Error = strings.SplitN(err.Error(), "\n", 2)[0]
		if ce, ok := err.(*check.Error); ok && strings.Contains(ce.Err.Error(), `cannot prove "false"`) {
			out[i].Reached = true
			for _, x := range ce.Facts {
				out[i].Facts = append(out[i].Facts, x.Str(tm))
			}
		}
	}
}

func main() {
	if len(os.Args) >= 3 && os.Args[1] == "facts" {
		probeFacts(os.Args[2])
		return
	}
	if len(os.Args) >= 3 && os.Args[1] == "ast" {
		dumpAST(os.Args[2])
		return
	}
	if len(os.Args) < 3 || os.Args[1] != "axioms" {
		fmt.Fprintln(os.Stderr, "usage: wprobe axioms <data.go> | wprobe facts <programs.json>")
		os.Exit(2)
	}
	b, err := os.ReadFile(os.Args[2])
	if err != nil {
		fmt.Fprintln(os.Stderr, err)
		os.Exit(2)
	}
	re := regexp.MustCompile("(?m)^\\t\\{`(\"[^`]+\")`, func")
	var out []axiomResult
	for _, m := range re.FindAllStringSubmatch(string(b), -1) {
		out = append(out, probeAxiom(m[1]))
	}
	enc := json.NewEncoder(os.Stdout)
	enc.SetIndent("", " ")
	enc.Encode(out)
}
