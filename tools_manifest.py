#!/usr/bin/env python3
"""Regenerates MANIFEST.json from the table below (kept in one place so it stays valid)."""
import json
ids=[json.loads(l)['id'] for l in open('/verif/properties.jsonl')]
claimed = {
 "C06": dict(cat="model_checking", design="DESIGN.md §4 C06",
   text="Bounded model checking of the real lib/interval code: every exported IntRange operator is executed symbolically (go/ssa -> SMT, math/big modelled as bit-vectors with overflow obligations) over all nil/finite endpoint patterns and all members with |v| < 2^K; containment, ok-iff-defined, emptiness, non-aliasing (pointer identity and mutation-through-result) are assertions discharged by z3 for every value in the bound; tightness is decided by finite expansion of the inner exists over [-T,T).",
   note="Bounds: quick K=8 (Mul K=5, And/Or K=6 with operands not straddling zero), shifts <= 8, tightness T=8; thorough K=12 (Mul 7), shifts <= 16, T=32, And/Or unrestricted. Outside the bounds nothing is claimed. Trusted: gossa encoder, math/big bit-vector model (validated by native replay of witnesses), z3.",
   tech="symbolic execution of go/ssa + SMT (z3 5.1 deciding, z3 4.8.12/cvc5 cross-check), native replay of models"),
 "C17": dict(cat="model_checking", design="DESIGN.md §4 C17",
   text="Inductive one-step lemmas of the real range coder from an arbitrary symbolic state (encodeBit+shiftLow keep the carry/pending-digit invariant and scale the denoted number exactly; encoder/decoder duality for every code value in the selected sub-interval), uvarint round trip for all x < 2^63, XZ container round trip for every payload up to NMAX bytes with the raw coder stubbed, solver-driven exhaustive round trips of N-byte payloads through the public API, decoder totality on arbitrary bytes.",
   note="Bounds: round trip N=1 (quick) / 2 (thorough) bytes per format; XZ framing payload <= 10/14 bytes; robustness LZMA sources of 19-20 bytes with declared size <= 1; pendingExtra <= 1 in the step lemma. External decoders (xz, Wuffs std/lzma) are outside. CRC-32 of symbolic bytes is an uninterpreted function.",
   tech="symbolic execution of go/ssa + SMT, inductive step lemmas, native replay"),
 "C19": dict(cat="model_checking", design="DESIGN.md §4 C19",
   text="Encoder.Encode executed symbolically with every pixel byte symbolic: all images up to MAXWH x MAXWH for the six depth/colour types with stride slack and Encoder reuse, plus driver-chosen sizes whose rows/pixels land on every interesting offset of the 64 KiB buffer (chunk exactly full, one short, IEND fits exactly / separate by one); a PNG/zlib-stored/Adler walker is the oracle and the decoded samples are compared term-by-term with the input. CRC-32 and Adler-32 kernels are proved equal to bitwise/reference definitions for N symbolic bytes from arbitrary state.",
   note="In the framing harnesses crc32IEEE/updateAdler32 are uninterpreted functions (the walker applies the same functions, so placement/chaining is checked); their arithmetic is covered by the kernel lemmas (CRC: table entries all 256, streams of <=2 bytes; Adler: <=16/64 bytes from any state). The 5552-byte NMAX overflow argument and io.Writer failures are outside.",
   tech="symbolic execution of go/ssa + SMT with uninterpreted-function summaries, native replay"),

 "C16": dict(cat="model_checking", design="DESIGN.md §4 C16",
   text="flatecut.Cut and zlibcut.Cut executed symbolically on every valid DEFLATE stream that a bounded generator can emit (every sequence of up to BLOCKS stored / fixed-Huffman / dynamic-Huffman blocks with up to TOKENS literal or length-distance tokens each; all literal values, extra bits, padding bits, stored data and the limit maxEncodedLen symbolic; the block/token shape case-split by the solver). An independent RFC 1951 reference decoder (also standing in for compress/flate inside the code under test) decodes the cut result; the assertions are encodedLen <= maxEncodedLen, result is complete valid DEFLATE/zlib, it decodes to exactly the first decodedLen bytes of the original output, everything is kept when the limit does not bind, the io.Writer receives the prefix, zlib header kept and Adler-32 of the prefix in place.",
   note="Bounds: quick BLOCKS<=2,TOKENS<=1 and BLOCKS=1,TOKENS<=2 (+dynamic header), thorough up to 3 blocks / 3 tokens; length symbols drawn from {257,265,285}, distances <= 8; one concrete dynamic-Huffman header (from compress/flate) with symbolic body; arbitrary-byte streams of 3 bytes in the thorough tier. Trusted: the reference decoder/generator in harness/go/c16, the gossa encoder, z3. compress/flate itself is modelled by the reference decoder.",
   tech="symbolic execution of go/ssa + SMT over generator-quantified valid streams, reference-decoder oracle, native replay"),
 "C18": dict(cat="model_checking", design="DESIGN.md §4 C18",
   text="Inductive unit lemmas of the real entropy coder from arbitrary symbolic state (div = round-to-nearest for every coefficient/factor; emitBits keeps the bit-accumulator invariant and byte-stuffs every 0xFF; emitHuffmanRun's output decodes, with canonical codes rebuilt from the DHT bytes the encoder itself writes, to the same (run, value) for every value and run) plus whole-file harnesses through the public API (Reset, AddN): sparse symbolic blocks are decoded by an independent baseline-JPEG reader and compared coefficient by coefficient with div(coef, q); headers, sampling factors, tables, unit counting, too-many / wrong-N / after-error call sequences.",
   note="Bounds: blocks with symbolic DC and <= 2 symbolic AC positions from a list of zig-zag patterns (adjacent, run 15/16/17, >= 32, last); <= 2 units; three quantisation tables; image sizes symbolic in the unit-count harness only. Dense blocks, the DCT pair and 'no allocation' are outside. Trusted: the JPEG reader in harness/go/c18, gossa, z3.",
   tech="symbolic execution of go/ssa + SMT, inductive step lemmas, reference entropy decoder oracle, native replay"),

 "C13": dict(cat="model_checking", design="DESIGN.md §4 C13",
   text="rac.Writer driven symbolically through its public API with a length-framed store codec (supports Cut and shared resources): every payload of N symbolic bytes, every partition into up to WRITES Write calls (split points symbolic), both chunk-sizing modes, page sizes, both index locations, plain and seekable temp files, 0-2 shared resources chosen nondeterministically per chunk. When Close returns nil the produced bytes must pass a walker written from doc/spec/rac-spec.md (root discovery, branch-node validation, parent/child and anti-loop rules, MakeCRange, contiguous leaves) whose reconstruction equals the payload byte for byte, and the real rac.Reader must return exactly the payload. Fault harness: the k-th I/O call (k symbolic) on the underlying writer / temp file fails; the failure must be reported by that call and stay reported by every later Write and Close. Unit lemmas: one writeBuffer operation from an arbitrary state against the abstract byte sequence.",
   note="Bounds: quick N<=8, WRITES<=3, chunk sizes 1-3 data bytes, CPageSize in {0,4,8}; thorough N<=8 with three writes. One index level only (arity <= 255). Real zlib/lz4/zstd codecs are outside (stub codec instead); trusted: the spec walker and stub codec in harness/go/c13, gossa, z3.",
   tech="symbolic execution of go/ssa + SMT (payload bytes, split points and fault point symbolic), spec-walker oracle, native replay"),

 "C15": dict(cat="model_checking", design="DESIGN.md §4 C15",
   text="rac.ChunkReader executed symbolically on files whose every byte is symbolic except the magic and first arity byte of one or two designated index-node positions (root at start or at end, optional second node): all pointers, tags, lengths, reserved bytes, second arity byte, version, codec byte and the claimed CompressedSize are solver variables, the node checksums are 'repaired' through an uninterpreted CRC (natively: the real CRC). Script: DecompressedSize, optional SeekToChunkContaining(symbolic offset), up to STEPS NextChunk calls. Assertions: no panic; every loop leaves within the unwinding bound (a feasible path beyond it is replayed natively under a watchdog and reported as a hang); a rejected file stays rejected or yields only well-formed chunks; every chunk has 0 <= CPrimary.lo <= CPrimary.hi <= CompressedSize, a non-empty DRange inside the decompressed size, contiguous with its predecessor (or containing the seek target); io.EOF only at the decompressed size.",
   note="Bounds: arity <= 2 (thorough 3), <= 2 index nodes, files of 32-82 (120) bytes, <= 3-5 NextChunk calls. Outside: files where the magic bytes occur at non-designated offsets (their checksum could not be repaired for replay), racdict dictionary loading, Reader.Read on hostile chunk payloads. Trusted: gossa, z3, CRC as an uninterpreted function.",
   tech="symbolic execution of go/ssa + SMT over symbolic file bytes, unwinding assertions as hang detector, native replay under watchdog"),
}
na = {
}
m={"version":1,
 "setup_cmd":"cd /verif/engine && GOFLAGS=-mod=mod GOPROXY=off GOSUMDB=off GOTOOLCHAIN=local go build -o /verif/bin/vcheck ./cmd/vcheck",
 "hooks":{"guard":"verif","enable":"no hooks: harnesses are injected with go/packages overlays (symbolic run) and go test -overlay (native replay); nothing in /repo is built with a tag","baseline_off_cmd":"for m in $(cat /w/out/gomods.txt); do MF=$(cd /repo/$m && . /w/out/goenv.sh && gomodflag); (cd /repo/$m && go test $MF -json -vet=off -count=1 -timeout 25m ./...); done","source_commits":[],"add_only":True},
 "engines":[{"name":"gossa","path":"engine/gossa","serves_properties":sorted(claimed),"kind_free_text":"symbolic executor for go/ssa of /repo's working tree (forking paths, merged calls, SMT-LIB2 to long-lived z3 processes, native replay of models)"},
            {"name":"sym","path":"engine/sym","serves_properties":sorted(claimed),"kind_free_text":"term DAG + simplifier + solver driver"}],
 "checks":[], "not_applicable":[]}
for i in ids:
    if i in claimed:
        c=claimed[i]
        m["checks"].append({"property_id":i,"quick_cmd":"/verif/bin/vcheck %s --tier quick"%i,"thorough_cmd":"/verif/bin/vcheck %s --tier thorough"%i,
          "evidence_file":"/verif/evidence/%s.json"%i,"replay_cmd_template":"/verif/bin/vcheck --replay {path}","engine":"gossa",
          "level_claimed":{"category":c["cat"],"text":c["text"],"design_ref":c["design"]},"level_note":c["note"],"technique":c["tech"]})
    else:
        m["not_applicable"].append({"property_id":i,"reason":na.get(i,"check not built yet (engine under construction); see DESIGN.md")})
json.dump(m,open('/verif/MANIFEST.json','w'),indent=1)
print("claimed",sorted(claimed))
