// C09: results depend only on the input, not on memory garbage or initialisation flags.
// Four executions of the same coroutine on the same symbolic input:
//   R1  object initialised normally (initialize zeroes everything);
//   R2  object memory arbitrary, initialised with LEAVE_INTERNAL_BUFFERS_UNINITIALIZED;
//   R3  object memory zeroed by the caller, initialised with ALREADY_ZEROED;
//   R4  object first used on ANOTHER symbolic input (possibly ending suspended or in an error),
//       then re-initialised normally.
// Destination memory beyond the write index holds arbitrary bytes in R2..R4. Output bytes,
// status, consumed/produced counts and the object's observable state must be identical.
#define WUFFS_IMPLEMENTATION
#define WUFFS_CONFIG__AVOID_CPU_ARCH
#define WUFFS_CONFIG__MODULES
#define WUFFS_CONFIG__MODULE__BASE
#define WUFFS_CONFIG__MODULE__ADLER32
#define WUFFS_CONFIG__MODULE__DEMO
#include "wuffs-std-adler32.c"
#include "wuffs-corpus-demo.c"
#include "verif.h"

#define MAXN 10
#define DSTN 8

typedef wuffs_base__status (*io_coro)(wuffs_demo__parser*, wuffs_base__io_buffer*, wuffs_base__io_buffer*);

static wuffs_base__status call_transform(wuffs_demo__parser* p, wuffs_base__io_buffer* d, wuffs_base__io_buffer* s) {
  return wuffs_demo__parser__transform_io(p, d, s, wuffs_base__empty_slice_u8());
}
static wuffs_base__status call_f1(wuffs_demo__parser* p, wuffs_base__io_buffer* d, wuffs_base__io_buffer* s) { return wuffs_demo__parser__f1(p, s); }
static wuffs_base__status call_f2(wuffs_demo__parser* p, wuffs_base__io_buffer* d, wuffs_base__io_buffer* s) { return wuffs_demo__parser__f2(p, s); }
static wuffs_base__status call_f3(wuffs_demo__parser* p, wuffs_base__io_buffer* d, wuffs_base__io_buffer* s) { return wuffs_demo__parser__f3(p, s); }
static wuffs_base__status call_f4(wuffs_demo__parser* p, wuffs_base__io_buffer* d, wuffs_base__io_buffer* s) { return wuffs_demo__parser__f4(p, s); }
static wuffs_base__status call_f7(wuffs_demo__parser* p, wuffs_base__io_buffer* d, wuffs_base__io_buffer* s) { return wuffs_demo__parser__f7(p, s); }
static wuffs_base__status call_f8(wuffs_demo__parser* p, wuffs_base__io_buffer* d, wuffs_base__io_buffer* s) { return wuffs_demo__parser__f8(p, s); }
static wuffs_base__status call_f5(wuffs_demo__parser* p, wuffs_base__io_buffer* d, wuffs_base__io_buffer* s) { return wuffs_demo__parser__f5(p, s); }

typedef struct {
  wuffs_base__status st;
  uint64_t ri, wi;
  uint8_t out[DSTN];
  uint32_t total, count, acc;
  uint8_t last;
  uint64_t wide;
} outcome;

static void run(io_coro fn, wuffs_demo__parser* p, const uint8_t* in, uint64_t n, int garbage_dst, outcome* o) {
  uint8_t dmem[DSTN];
  if (garbage_dst) {
    verif_garbage(dmem, DSTN);
  } else {
    for (int i = 0; i < DSTN; i++) dmem[i] = 0;
  }
  wuffs_base__io_buffer dst = wuffs_base__ptr_u8__writer(dmem, DSTN);
  wuffs_base__io_buffer src = wuffs_base__ptr_u8__reader((uint8_t*)in, n, true);
  o->st = fn(p, &dst, &src);
  o->ri = src.meta.ri;
  o->wi = dst.meta.wi;
  for (uint64_t i = 0; i < DSTN; i++) o->out[i] = (i < dst.meta.wi) ? dmem[i] : 0;
  o->total = p->private_impl.f_total;
  o->count = p->private_impl.f_count;
  o->acc = p->private_impl.f_acc;
  o->last = p->private_impl.f_last;
  o->wide = p->private_impl.f_wide;
}

static void same(const outcome* a, const outcome* b, const char* l_status, const char* l_counts, const char* l_bytes, const char* l_state) {
  verif_check(a->st.repr == b->st.repr, l_status);
  verif_check(a->ri == b->ri && a->wi == b->wi, l_counts);
  for (int i = 0; i < DSTN; i++) verif_check(a->out[i] == b->out[i], l_bytes);
  verif_check(a->total == b->total && a->count == b->count && a->acc == b->acc && a->last == b->last && a->wide == b->wide, l_state);
}

static void garbage_independent(io_coro fn) {
  uint8_t in[MAXN], other[MAXN];
  uint64_t n = verif_conc(nondet_u64() % (verif_param("N") + 1));
  for (uint64_t i = 0; i < n; i++) in[i] = nondet_u8();
  outcome r1, r2, r3, r4;

  wuffs_demo__parser a;
  verif_check(wuffs_demo__parser__initialize(&a, sizeof a, WUFFS_VERSION, 0).repr == NULL, "garbage/init-1");
  run(fn, &a, in, n, 0, &r1);

  wuffs_demo__parser b;
  verif_garbage(&b, sizeof b);
  verif_check(wuffs_demo__parser__initialize(&b, sizeof b, WUFFS_VERSION, WUFFS_INITIALIZE__LEAVE_INTERNAL_BUFFERS_UNINITIALIZED).repr == NULL, "garbage/init-2");
  run(fn, &b, in, n, 1, &r2);
  same(&r1, &r2, "garbage/uninitialised-buffers-same-status", "garbage/uninitialised-buffers-same-counts", "garbage/uninitialised-buffers-same-bytes", "garbage/uninitialised-buffers-same-state");

  wuffs_demo__parser c;
  memset(&c, 0, sizeof c);
  verif_check(wuffs_demo__parser__initialize(&c, sizeof c, WUFFS_VERSION, WUFFS_INITIALIZE__ALREADY_ZEROED).repr == NULL, "garbage/init-3");
  run(fn, &c, in, n, 1, &r3);
  same(&r1, &r3, "garbage/already-zeroed-same-status", "garbage/already-zeroed-same-counts", "garbage/already-zeroed-same-bytes", "garbage/already-zeroed-same-state");

  if (verif_param("REUSE")) {
    wuffs_demo__parser d;
    verif_check(wuffs_demo__parser__initialize(&d, sizeof d, WUFFS_VERSION, 0).repr == NULL, "garbage/init-4a");
    uint64_t m = verif_conc(nondet_u64() % (verif_param("M") + 1));
    for (uint64_t i = 0; i < m; i++) other[i] = nondet_u8();
    outcome ignored;
    run(fn, &d, other, m, 1, &ignored);
    verif_check(wuffs_demo__parser__initialize(&d, sizeof d, WUFFS_VERSION, 0).repr == NULL, "garbage/init-4b");
    run(fn, &d, in, n, 1, &r4);
    same(&r1, &r4, "garbage/reused-object-same-status", "garbage/reused-object-same-counts", "garbage/reused-object-same-bytes", "garbage/reused-object-same-state");
  }
  verif_reach("garbage/done");
}

void harness_garbage_f1(void) { garbage_independent(call_f1); }
void harness_garbage_f2(void) { garbage_independent(call_f2); }
void harness_garbage_f3(void) { garbage_independent(call_f3); }
void harness_garbage_f4(void) { garbage_independent(call_f4); }
void harness_garbage_f5(void) { garbage_independent(call_f5); }
void harness_garbage_f7(void) { garbage_independent(call_f7); }
void harness_garbage_f8(void) { garbage_independent(call_f8); }
void harness_garbage_f6(void) { garbage_independent(wuffs_demo__parser__f6); }
void harness_garbage_transform(void) { garbage_independent(call_transform); }

// std hasher: adler32 over arbitrary prior object memory
void harness_garbage_adler32(void) {
  uint8_t in[MAXN];
  uint64_t n = verif_conc(nondet_u64() % (verif_param("N") + 1));
  for (uint64_t i = 0; i < n; i++) in[i] = nondet_u8();
  wuffs_adler32__hasher a, b;
  verif_check(wuffs_adler32__hasher__initialize(&a, sizeof a, WUFFS_VERSION, 0).repr == NULL, "garbage/init-1");
  verif_garbage(&b, sizeof b);
  verif_check(wuffs_adler32__hasher__initialize(&b, sizeof b, WUFFS_VERSION, WUFFS_INITIALIZE__LEAVE_INTERNAL_BUFFERS_UNINITIALIZED).repr == NULL, "garbage/init-2");
  uint32_t ha = wuffs_adler32__hasher__update_u32(&a, wuffs_base__make_slice_u8(in, n));
  uint32_t hb = wuffs_adler32__hasher__update_u32(&b, wuffs_base__make_slice_u8(in, n));
  verif_check(ha == hb, "garbage/adler32-same-hash");
  verif_reach("garbage/done");
}
