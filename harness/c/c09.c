// C09: results depend only on the input, not on memory garbage or initialisation flags.
// Four executions of the same coroutine on the same symbolic input:
//   R1  object initialised normally (initialize zeroes everything);
//   R2  object memory arbitrary, initialised with LEAVE_INTERNAL_BUFFERS_UNINITIALIZED;
//   R3  object memory zeroed by the caller, initialised with ALREADY_ZEROED;
//   R4  object first used on ANOTHER symbolic input (possibly ending suspended or in an error),
//       then re-initialised normally.
// Destination memory beyond the write index holds arbitrary bytes in R2..R4. Output bytes,
// status, consumed/produced counts and the object's observable state must be identical.
#define WUFFS_IMPLEMENTATION
#define WUFFS_CONFIG__AVOID_CPU_ARCH
#define WUFFS_CONFIG__MODULES
#define WUFFS_CONFIG__MODULE__BASE
#define WUFFS_CONFIG__MODULE__ADLER32
#define WUFFS_CONFIG__MODULE__DEMO
#define WUFFS_CONFIG__MODULE__GIF
#include "wuffs-std-adler32.c"
#include "wuffs-std-gif.c"
#include "wuffs-corpus-demo.c"
#include "verif.h"

#define MAXN 10
#define DSTN 8

typedef wuffs_base__status (*io_coro)(wuffs_demo__parser*, wuffs_base__io_buffer*, wuffs_base__io_buffer*);

static wuffs_base__status call_transform(wuffs_demo__parser* p, wuffs_base__io_buffer* d, wuffs_base__io_buffer* s) {
  return wuffs_demo__parser__transform_io(p, d, s, wuffs_base__empty_slice_u8());
}
static wuffs_base__status call_f1(wuffs_demo__parser* p, wuffs_base__io_buffer* d, wuffs_base__io_buffer* s) { return wuffs_demo__parser__f1(p, s); }
static wuffs_base__status call_f2(wuffs_demo__parser* p, wuffs_base__io_buffer* d, wuffs_base__io_buffer* s) { return wuffs_demo__parser__f2(p, s); }
static wuffs_base__status call_f3(wuffs_demo__parser* p, wuffs_base__io_buffer* d, wuffs_base__io_buffer* s) { return wuffs_demo__parser__f3(p, s); }
static wuffs_base__status call_f4(wuffs_demo__parser* p, wuffs_base__io_buffer* d, wuffs_base__io_buffer* s) { return wuffs_demo__parser__f4(p, s); }
static wuffs_base__status call_f7(wuffs_demo__parser* p, wuffs_base__io_buffer* d, wuffs_base__io_buffer* s) { return wuffs_demo__parser__f7(p, s); }
static wuffs_base__status call_f8(wuffs_demo__parser* p, wuffs_base__io_buffer* d, wuffs_base__io_buffer* s) { return wuffs_demo__parser__f8(p, s); }
static wuffs_base__status call_f5(wuffs_demo__parser* p, wuffs_base__io_buffer* d, wuffs_base__io_buffer* s) { return wuffs_demo__parser__f5(p, s); }

typedef struct {
  wuffs_base__status st;
  uint64_t ri, wi;
  uint8_t out[DSTN];
  uint32_t total, count, acc;
  uint8_t last;
  uint64_t wide;
} outcome;

static void run(io_coro fn, wuffs_demo__parser* p, const uint8_t* in, uint64_t n, int garbage_dst, outcome* o) {
  uint8_t dmem[DSTN];
  if (garbage_dst) {
    verif_garbage(dmem, DSTN);
  } else {
    for (int i = 0; i < DSTN; i++) dmem[i] = 0;
  }
  wuffs_base__io_buffer dst = wuffs_base__ptr_u8__writer(dmem, DSTN);
  wuffs_base__io_buffer src = wuffs_base__ptr_u8__reader((uint8_t*)in, n, true);
  o->st = fn(p, &dst, &src);
  o->ri = src.meta.ri;
  o->wi = dst.meta.wi;
  for (uint64_t i = 0; i < DSTN; i++) o->out[i] = (i < dst.meta.wi) ? dmem[i] : 0;
  o->total = p->private_impl.f_total;
  o->count = p->private_impl.f_count;
  o->acc = p->private_impl.f_acc;
  o->last = p->private_impl.f_last;
  o->wide = p->private_impl.f_wide;
}

static void same(const outcome* a, const outcome* b, const char* l_status, const char* l_counts, const char* l_bytes, const char* l_state) {
  verif_check(a->st.repr == b->st.repr, l_status);
  verif_check(a->ri == b->ri && a->wi == b->wi, l_counts);
  for (int i = 0; i < DSTN; i++) verif_check(a->out[i] == b->out[i], l_bytes);
  verif_check(a->total == b->total && a->count == b->count && a->acc == b->acc && a->last == b->last && a->wide == b->wide, l_state);
}

static void garbage_independent(io_coro fn) {
  uint8_t in[MAXN], other[MAXN];
  uint64_t n = verif_conc(nondet_u64() % (verif_param("N") + 1));
  for (uint64_t i = 0; i < n; i++) in[i] = nondet_u8();
  outcome r1, r2, r3, r4;

  wuffs_demo__parser a;
  verif_check(wuffs_demo__parser__initialize(&a, sizeof a, WUFFS_VERSION, 0).repr == NULL, "garbage/init-1");
  run(fn, &a, in, n, 0, &r1);

  wuffs_demo__parser b;
  verif_garbage(&b, sizeof b);
  verif_check(wuffs_demo__parser__initialize(&b, sizeof b, WUFFS_VERSION, WUFFS_INITIALIZE__LEAVE_INTERNAL_BUFFERS_UNINITIALIZED).repr == NULL, "garbage/init-2");
  run(fn, &b, in, n, 1, &r2);
  same(&r1, &r2, "garbage/uninitialised-buffers-same-status", "garbage/uninitialised-buffers-same-counts", "garbage/uninitialised-buffers-same-bytes", "garbage/uninitialised-buffers-same-state");

  wuffs_demo__parser c;
  memset(&c, 0, sizeof c);
  verif_check(wuffs_demo__parser__initialize(&c, sizeof c, WUFFS_VERSION, WUFFS_INITIALIZE__ALREADY_ZEROED).repr == NULL, "garbage/init-3");
  run(fn, &c, in, n, 1, &r3);
  same(&r1, &r3, "garbage/already-zeroed-same-status", "garbage/already-zeroed-same-counts", "garbage/already-zeroed-same-bytes", "garbage/already-zeroed-same-state");

  if (verif_param("REUSE")) {
    wuffs_demo__parser d;
    verif_check(wuffs_demo__parser__initialize(&d, sizeof d, WUFFS_VERSION, 0).repr == NULL, "garbage/init-4a");
    uint64_t m = verif_conc(nondet_u64() % (verif_param("M") + 1));
    for (uint64_t i = 0; i < m; i++) other[i] = nondet_u8();
    outcome ignored;
    run(fn, &d, other, m, 1, &ignored);
    verif_check(wuffs_demo__parser__initialize(&d, sizeof d, WUFFS_VERSION, 0).repr == NULL, "garbage/init-4b");
    run(fn, &d, in, n, 1, &r4);
    same(&r1, &r4, "garbage/reused-object-same-status", "garbage/reused-object-same-counts", "garbage/reused-object-same-bytes", "garbage/reused-object-same-state");
  }
  verif_reach("garbage/done");
}

void harness_garbage_f1(void) { garbage_independent(call_f1); }
void harness_garbage_f2(void) { garbage_independent(call_f2); }
void harness_garbage_f3(void) { garbage_independent(call_f3); }
void harness_garbage_f4(void) { garbage_independent(call_f4); }
void harness_garbage_f5(void) { garbage_independent(call_f5); }
void harness_garbage_f7(void) { garbage_independent(call_f7); }
void harness_garbage_f8(void) { garbage_independent(call_f8); }
void harness_garbage_f6(void) { garbage_independent(wuffs_demo__parser__f6); }
void harness_garbage_f9(void) { garbage_independent(wuffs_demo__parser__f9); }
void harness_garbage_transform(void) { garbage_independent(call_transform); }

// std hasher: adler32 over arbitrary prior object memory
void harness_garbage_adler32(void) {
  uint8_t in[MAXN];
  uint64_t n = verif_conc(nondet_u64() % (verif_param("N") + 1));
  for (uint64_t i = 0; i < n; i++) in[i] = nondet_u8();
  wuffs_adler32__hasher a, b;
  verif_check(wuffs_adler32__hasher__initialize(&a, sizeof a, WUFFS_VERSION, 0).repr == NULL, "garbage/init-1");
  verif_garbage(&b, sizeof b);
  verif_check(wuffs_adler32__hasher__initialize(&b, sizeof b, WUFFS_VERSION, WUFFS_INITIALIZE__LEAVE_INTERNAL_BUFFERS_UNINITIALIZED).repr == NULL, "garbage/init-2");
  uint32_t ha = wuffs_adler32__hasher__update_u32(&a, wuffs_base__make_slice_u8(in, n));
  uint32_t hb = wuffs_adler32__hasher__update_u32(&b, wuffs_base__make_slice_u8(in, n));
  verif_check(ha == hb, "garbage/adler32-same-hash");
  verif_reach("garbage/done");
}

// ---- hand-written base sub-module: the YCC(K) swizzler's caller-supplied scratch buffer ----
// Two conversions of the same planes (arbitrary bytes) for every combination of
// sampling factors, odd and even widths, with and without the triangle filter; the 2 KiB
// scratch buffer is zero in one run and arbitrary (symbolic) in the other. The destination
// pixels must not depend on it.
#define YW_MAX 7
#define YH 3
#define YSTRIDE 8
static uint8_t g_planes[3][YSTRIDE * YH];
static void ycck_run(uint8_t* scratch, uint8_t* dst, uint32_t w, uint32_t h0, uint32_t h1, uint32_t h2, uint32_t v0, uint32_t v1, uint32_t v2, bool tri) {
  static uint8_t p0[YSTRIDE * YH], p1[YSTRIDE * YH], p2[YSTRIDE * YH];
  for (int i = 0; i < YSTRIDE * YH; i++) {
    p0[i] = g_planes[0][i];
    p1[i] = g_planes[1][i];
    p2[i] = g_planes[2][i];
  }
  uint32_t hmax = h0 > h1 ? (h0 > h2 ? h0 : h2) : (h1 > h2 ? h1 : h2);
  uint32_t vmax = v0 > v1 ? (v0 > v2 ? v0 : v2) : (v1 > v2 ? v1 : v2);
  wuffs_base__pixel_config pc = ((wuffs_base__pixel_config){});
  wuffs_base__pixel_config__set(&pc, WUFFS_BASE__PIXEL_FORMAT__BGRA_PREMUL, WUFFS_BASE__PIXEL_SUBSAMPLING__NONE, w, YH);
  wuffs_base__pixel_buffer pb = ((wuffs_base__pixel_buffer){});
  verif_check(wuffs_base__pixel_buffer__set_from_slice(&pb, &pc, wuffs_base__make_slice_u8(dst, 4 * w * YH)).repr == NULL, "ycck/pixel-buffer");
  wuffs_base__pixel_swizzler sw = ((wuffs_base__pixel_swizzler){});
  wuffs_base__status st = wuffs_base__pixel_swizzler__swizzle_ycck(
      &sw, &pb, wuffs_base__empty_slice_u8(), 0, w, 0, YH,
      wuffs_base__make_slice_u8(p0, sizeof p0), wuffs_base__make_slice_u8(p1, sizeof p1), wuffs_base__make_slice_u8(p2, sizeof p2), wuffs_base__empty_slice_u8(),
      (w * h0 + hmax - 1) / hmax, (w * h1 + hmax - 1) / hmax, (w * h2 + hmax - 1) / hmax, 0,
      (YH * v0 + vmax - 1) / vmax, (YH * v1 + vmax - 1) / vmax, (YH * v2 + vmax - 1) / vmax, 0,
      YSTRIDE, YSTRIDE, YSTRIDE, 0,
      (uint8_t)h0, (uint8_t)h1, (uint8_t)h2, 0, (uint8_t)v0, (uint8_t)v1, (uint8_t)v2, 0,
      false, tri, wuffs_base__make_slice_u8(scratch, 2048));
  verif_check(st.repr == NULL, "ycck/status-ok");
}

void harness_garbage_ycck(void) {
  static uint8_t s1[2048], s2[2048];
  static uint8_t d1[4 * YW_MAX * YH], d2[4 * YW_MAX * YH];
  uint64_t sel = nondet_u64();
  verif_assume(sel < 2 * 2 * 2 * 2 * 2 * 2 * 2);
  sel = verif_conc(sel);
  uint64_t wsel = nondet_u64();
  verif_assume(wsel < 3);
  wsel = verif_conc(wsel);
  uint32_t h0 = 1 + (sel & 1), h1 = 1 + ((sel >> 1) & 1), h2 = 1 + ((sel >> 2) & 1);
  uint32_t v0 = 1 + ((sel >> 3) & 1), v1 = 1 + ((sel >> 4) & 1), v2 = 1 + ((sel >> 5) & 1);
  bool tri = (sel >> 6) & 1;
  uint32_t w = YW_MAX - (uint32_t)wsel;  // 7, 6, 5
  for (int i = 0; i < YSTRIDE * YH; i++) {
    g_planes[0][i] = nondet_u8();
    g_planes[1][i] = nondet_u8();
    g_planes[2][i] = nondet_u8();
  }
  for (int i = 0; i < 2048; i++) s1[i] = 0;
  verif_garbage(s2, 2048);
  for (int i = 0; i < 4 * YW_MAX * YH; i++) d1[i] = d2[i] = 0;
  ycck_run(s1, d1, w, h0, h1, h2, v0, v1, v2, tri);
  ycck_run(s2, d2, w, h0, h1, h2, v0, v1, v2, tri);
  for (int i = 0; i < 4 * YW_MAX * YH; i++) verif_check(d1[i] == d2[i], "garbage/ycck-scratch-contents-do-not-reach-the-pixels");
  verif_reach("garbage/done");
}

// ---- std/gif on fixed small images: the decoder object is arbitrary memory in the second run ----
// Concrete inputs (2x2 GIFs with and without colour tables), symbolic object memory: status,
// consumed count and pixels must not depend on it (LEAVE_INTERNAL_BUFFERS_UNINITIALIZED).
typedef struct {
  const char* dic;
  const char* df;
  uint64_t ri;
  uint8_t px[16];
} gif_outcome;

static void gif_run(wuffs_gif__decoder* dec, const uint8_t* ptr, size_t len, gif_outcome* o) {
  wuffs_base__io_buffer src = wuffs_base__ptr_u8__reader((uint8_t*)ptr, len, true);
  wuffs_base__image_config ic = ((wuffs_base__image_config){});
  o->df = NULL;
  o->ri = 0;
  for (int i = 0; i < 16; i++) o->px[i] = 0x11;
  o->dic = wuffs_gif__decoder__decode_image_config(dec, &ic, &src).repr;
  if (o->dic) return;
  wuffs_base__pixel_config__set(&ic.pixcfg, WUFFS_BASE__PIXEL_FORMAT__BGRA_NONPREMUL, WUFFS_BASE__PIXEL_SUBSAMPLING__NONE, 2, 2);
  wuffs_base__pixel_buffer pb = ((wuffs_base__pixel_buffer){});
  verif_check(wuffs_base__pixel_buffer__set_from_slice(&pb, &ic.pixcfg, wuffs_base__make_slice_u8(o->px, 16)).repr == NULL, "gif/pixel-buffer");
  static uint8_t workbuf[64];
  o->df = wuffs_gif__decoder__decode_frame(dec, &pb, &src, WUFFS_BASE__PIXEL_BLEND__SRC, wuffs_base__make_slice_u8(workbuf, sizeof workbuf), NULL).repr;
  o->ri = src.meta.ri;
}

void harness_garbage_gif(void) {
  // neither a global nor a local colour table
  static const uint8_t g0[30] = {'G', 'I', 'F', '8', '9', 'a', 2, 0, 2, 0, 0x00, 0, 0, 0x2C, 0, 0, 0, 0, 2, 0, 2, 0, 0x00, 2, 3, 0x44, 0x34, 0x05, 0, 0x3B};
  // a four-entry global colour table
  static const uint8_t g1[42] = {'G', 'I', 'F', '8', '9', 'a', 2, 0, 2, 0, 0x81, 0, 0, 0xFF, 0, 0, 0, 0xFF, 0, 0, 0, 0xFF, 0xFF, 0xFF, 0xFF, 0x2C, 0, 0, 0, 0, 2, 0, 2, 0, 0x00, 2, 3, 0x44, 0x34, 0x05, 0, 0x3B};
  // a two-entry local colour table only (indexes 2 and 3 are beyond it)
  static const uint8_t g2[36] = {'G', 'I', 'F', '8', '9', 'a', 2, 0, 2, 0, 0x00, 0, 0, 0x2C, 0, 0, 0, 0, 2, 0, 2, 0, 0x80, 1, 2, 3, 4, 5, 6, 2, 3, 0x44, 0x34, 0x05, 0, 0x3B};
  uint64_t which = nondet_u64();
  verif_assume(which < 3);
  which = verif_conc(which);
  uint8_t img[44];
  size_t len;
  if (which == 0) {
    len = sizeof g0;
    for (size_t i = 0; i < sizeof g0; i++) img[i] = g0[i];
  } else if (which == 1) {
    len = sizeof g1;
    for (size_t i = 0; i < sizeof g1; i++) img[i] = g1[i];
  } else {
    len = sizeof g2;
    for (size_t i = 0; i < sizeof g2; i++) img[i] = g2[i];
  }
  static wuffs_gif__decoder a, b;
  gif_outcome ra, rb;
  verif_check(wuffs_gif__decoder__initialize(&a, sizeof a, WUFFS_VERSION, 0).repr == NULL, "garbage/init-1");
  gif_run(&a, img, len, &ra);
  verif_garbage(&b, sizeof b);
  verif_check(wuffs_gif__decoder__initialize(&b, sizeof b, WUFFS_VERSION, WUFFS_INITIALIZE__LEAVE_INTERNAL_BUFFERS_UNINITIALIZED).repr == NULL, "garbage/init-2");
  gif_run(&b, img, len, &rb);
  verif_check(ra.dic == rb.dic && ra.df == rb.df, "garbage/gif-same-status");
  verif_check(ra.ri == rb.ri, "garbage/gif-same-consumed-count");
  for (int i = 0; i < 16; i++) verif_check(ra.px[i] == rb.px[i], "garbage/gif-same-pixels");
  verif_reach("garbage/done");
}
