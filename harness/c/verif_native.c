// Native replay runtime: nondet values and parameters come from the file named by VERIF_REPLAY
// (lines "v <name> <width> <value>" in call order and "p <name> <value>").
#include <stdio.h>
#include <stdlib.h>
#include <string.h>
#include "verif.h"

#define MAXV 65536
static char v_name[MAXV][24];
static unsigned long long v_val[MAXV];
static int v_n, v_pos;
static char p_name[64][32];
static long long p_val[64];
static int p_n;
static int failed;

static void verif_load(void) {
  const char* path = getenv("VERIF_REPLAY");
  if (!path) { fprintf(stderr, "VERIF_REPLAY not set\n"); exit(2); }
  FILE* f = fopen(path, "r");
  if (!f) { perror(path); exit(2); }
  char kind[4], name[64];
  while (fscanf(f, "%3s %63s", kind, name) == 2) {
    if (kind[0] == 'v') {
      int w; unsigned long long v;
      if (fscanf(f, "%d %llu", &w, &v) != 2) break;
      if (v_n < MAXV) { strncpy(v_name[v_n], name, 23); v_val[v_n] = v; v_n++; }
    } else {
      long long v;
      if (fscanf(f, "%lld", &v) != 1) break;
      if (p_n < 64) { strncpy(p_name[p_n], name, 31); p_val[p_n] = v; p_n++; }
    }
  }
  fclose(f);
}

static unsigned long long next(const char* name) {
  if (v_pos >= v_n) { printf("VERIF-EXTRA-NONDET %s\n", name); fflush(stdout); return 0; }
  if (strncmp(v_name[v_pos], name, strlen(name)) != 0 || v_name[v_pos][strlen(name)] != '#') {
    printf("VERIF-MISMATCH nondet order: wanted %s got %s\n", name, v_name[v_pos]); fflush(stdout); exit(4);
  }
  return v_val[v_pos++];
}

uint8_t nondet_u8(void) { return (uint8_t)next("u8"); }
uint16_t nondet_u16(void) { return (uint16_t)next("u16"); }
uint32_t nondet_u32(void) { return (uint32_t)next("u32"); }
uint64_t nondet_u64(void) { return (uint64_t)next("u64"); }
void verif_assume(int c) { if (!c) { printf("VERIF-ASSUME-FAILED\n"); fflush(stdout); exit(3); } }
void verif_check(int c, const char* label) { if (!c) { printf("VERIF-CHECK-FAILED %s\n", label); fflush(stdout); failed++; } }
void verif_reach(const char* label) { printf("VERIF-REACH %s\n", label); fflush(stdout); }
uint64_t verif_conc(uint64_t x) { return x; }
int64_t verif_param(const char* name) {
  for (int i = 0; i < p_n; i++) if (!strcmp(p_name[i], name)) return p_val[i];
  fprintf(stderr, "parameter %s not set\n", name); exit(2);
}
void verif_garbage(void* p, uint64_t n) {
  // arbitrary prior contents: a fixed non-zero pattern that differs from zero-initialisation
  // (up to 4096 bytes the symbolic run records each byte; beyond that a fixed pattern is used)
  unsigned char* q = (unsigned char*)p;
  for (uint64_t i = 0; i < n; i++) q[i] = (n <= 4096) ? (unsigned char)next("g8") : (unsigned char)(0xA5 ^ (i * 29));
}
void verif_spec_reset(const char* s) { (void)s; }
void verif_spec_set(const char* f, uint64_t i, uint64_t v) { (void)f; (void)i; (void)v; }
uint64_t verif_spec_get(const char* f, uint64_t i) { (void)f; (void)i; return (uint64_t)next("s64"); }
uint64_t verif_spec_call(const char* f, uint64_t a0, uint64_t a1, uint64_t a2, uint64_t a3) {
  (void)f; (void)a0; (void)a1; (void)a2; (void)a3; return (uint64_t)next("s64");
}
int verif_same_bytes(const void* p, const void* q, uint64_t n) { return memcmp(p, q, n) == 0; }

#ifndef VERIF_HARNESS
#error "define VERIF_HARNESS"
#endif
void VERIF_HARNESS(void);
int main(void) {
  verif_load();
  VERIF_HARNESS();
  printf("VERIF-DONE failed=%d\n", failed);
  return failed ? 1 : 0;
}
