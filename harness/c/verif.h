// Harness interface shared by the symbolic run (llsym intercepts these declared-but-undefined
// functions) and the native replay (verif_native.c defines them).
#ifndef VERIF_H
#define VERIF_H
#include <stddef.h>
#include <stdint.h>

uint8_t nondet_u8(void);
uint16_t nondet_u16(void);
uint32_t nondet_u32(void);
uint64_t nondet_u64(void);
void verif_assume(int cond);
void verif_check(int cond, const char* label);
void verif_reach(const char* label);
uint64_t verif_conc(uint64_t x);           // case-split x into its feasible concrete values
int64_t verif_param(const char* name);     // bound chosen by the driver
void verif_garbage(void* p, uint64_t n);   // the n bytes at p hold arbitrary prior contents
int verif_same_bytes(const void* p, const void* q, uint64_t n);

// translation validation (C04): a reference interpreter of the Wuffs source (engine/wuffsym) keeps
// its own receiver; natively the reference values come from the replay file
void verif_spec_reset(const char* struct_name);
void verif_spec_set(const char* field, uint64_t idx, uint64_t value);
uint64_t verif_spec_get(const char* field, uint64_t idx);
uint64_t verif_spec_call(const char* func, uint64_t a0, uint64_t a1, uint64_t a2, uint64_t a3);

#endif
