// C03: the generated library is memory-safe and well-behaved on any input.
// (1) base I/O helpers under exactly their documented pre-conditions: every access inside the
//     buffer, results as documented; (2) corpus coroutines and std hashers on arbitrary bytes,
//     arbitrary buffer indexes and closed-ness: no undefined behaviour (llsym ends a path with
//     UB on any out-of-bounds / null / dead-object access, division by zero, shift >= width,
//     unreachable, allocator call), every call returns, and the status is OK, a justified
//     suspension or a proper error.
#define WUFFS_IMPLEMENTATION
#define WUFFS_CONFIG__AVOID_CPU_ARCH
#define WUFFS_CONFIG__MODULES
#define WUFFS_CONFIG__MODULE__BASE
#define WUFFS_CONFIG__MODULE__ADLER32
#define WUFFS_CONFIG__MODULE__CRC32
#define WUFFS_CONFIG__MODULE__DEMO
#define WUFFS_CONFIG__MODULE__LZW
#define WUFFS_CONFIG__MODULE__CRC64
#define WUFFS_CONFIG__MODULE__XXHASH32
#define WUFFS_CONFIG__MODULE__XXHASH64
#include "wuffs-std-adler32.c"
#include "wuffs-std-crc32.c"
#include "wuffs-std-lzw.c"
#include "wuffs-std-crc64.c"
#include "wuffs-std-xxhash32.c"
#include "wuffs-std-xxhash64.c"
#include "wuffs-corpus-demo.c"
#include "verif.h"

#define HB 24

static int is_error(wuffs_base__status s) { return s.repr && (*s.repr == '#'); }
static int is_suspension(wuffs_base__status s) { return s.repr && (*s.repr == '$'); }

// ---- (1) history-copy helpers ----

// WHICH: 0 limited_copy_u32_from_history (no pre-condition), 1 _fast, 2 _fast_return_cusp,
// 3 _8_byte_chunks_fast, 4 _8_byte_chunks_fast_return_cusp, 5 _8_byte_chunks_distance_1_fast,
// 6 _8_byte_chunks_distance_1_fast_return_cusp
void harness_history_copy(void) {
  uint8_t buf[HB], before[HB];
  for (int i = 0; i < HB; i++) before[i] = buf[i] = nondet_u8();
  // the buffer proper is buf[0 .. cap); three guard bytes follow it
  uint64_t cap = HB - 3, pos = nondet_u64();
  verif_assume(pos <= cap);
  pos = verif_conc(pos);
  uint32_t length = nondet_u32(), distance = nondet_u32();
  int64_t which = verif_param("WHICH");
  uint64_t avail = cap - pos;
  switch (which) {
    case 0:
      verif_assume(length <= 40 && distance <= 40);
      break;
    case 1:
    case 2:
      verif_assume(length >= 1 && length <= avail && distance >= 1 && distance <= pos);
      break;
    case 3:
    case 4:
      verif_assume(length >= 1 && (uint64_t)length + 8 <= avail && distance >= 8 && distance <= pos);
      break;
    default:
      verif_assume(length >= 1 && (uint64_t)length + 8 <= avail && distance == 1 && distance <= pos);
      break;
  }
  uint8_t* iop = buf + pos;
  uint32_t r = 0;
  switch (which) {
    case 0: r = wuffs_private_impl__io_writer__limited_copy_u32_from_history(&iop, buf, buf + cap, length, distance); break;
    case 1: r = wuffs_private_impl__io_writer__limited_copy_u32_from_history_fast(&iop, buf, buf + cap, length, distance); break;
    case 2: r = wuffs_private_impl__io_writer__limited_copy_u32_from_history_fast_return_cusp(&iop, buf, buf + cap, length, distance); break;
    case 3: r = wuffs_private_impl__io_writer__limited_copy_u32_from_history_8_byte_chunks_fast(&iop, buf, buf + cap, length, distance); break;
    case 4: r = wuffs_private_impl__io_writer__limited_copy_u32_from_history_8_byte_chunks_fast_return_cusp(&iop, buf, buf + cap, length, distance); break;
    case 5: r = wuffs_private_impl__io_writer__limited_copy_u32_from_history_8_byte_chunks_distance_1_fast(&iop, buf, buf + cap, length, distance); break;
    default: r = wuffs_private_impl__io_writer__limited_copy_u32_from_history_8_byte_chunks_distance_1_fast_return_cusp(&iop, buf, buf + cap, length, distance); break;
  }
  // how many bytes the operation is documented to copy
  uint64_t n = length;
  if (which == 0) {
    if (distance == 0 || distance > pos) n = 0;
    else if (n > avail) n = avail;
  }
  verif_check((uint64_t)(iop - buf) == pos + n, "history/write-pointer-advanced-by-the-count");
  if (which == 0 || which == 1 || which == 3 || which == 5) verif_check(r == n, "history/returns-the-count");
  // LZ77 semantics: out[pos+i] = out[pos+i-distance], everything before pos untouched
  for (uint64_t i = 0; i < HB; i++) {
    if (i < pos) {
      verif_check(buf[i] == before[i], "history/bytes-before-the-write-pointer-unchanged");
    } else if (i < pos + n) {
      verif_check(buf[i] == buf[i - distance], "history/copied-bytes-repeat-the-history");
    } else if (i >= cap) {
      verif_check(buf[i] == before[i], "history/bytes-beyond-the-buffer-unchanged");
    }
  }
  if (which == 2 || which == 4 || which == 6) {
    // the cusp: last byte copied and the byte after it in the history
    uint64_t q = pos - distance + n;
    verif_check((r & 0xFF) == buf[q - 1], "history/cusp-low-byte");
  }
  verif_reach("history/done");
}

// ---- (2) corpus coroutines on arbitrary input and buffers ----

typedef wuffs_base__status (*src_coro)(wuffs_demo__parser*, wuffs_base__io_buffer*);
typedef wuffs_base__status (*io_coro)(wuffs_demo__parser*, wuffs_base__io_buffer*, wuffs_base__io_buffer*);

static wuffs_base__status call_transform(wuffs_demo__parser* p, wuffs_base__io_buffer* d, wuffs_base__io_buffer* s) {
  return wuffs_demo__parser__transform_io(p, d, s, wuffs_base__empty_slice_u8());
}

static void make_buf(wuffs_base__io_buffer* b, uint8_t* mem, uint64_t max) {
  for (uint64_t i = 0; i < max; i++) mem[i] = nondet_u8();
  uint64_t len = nondet_u64(), wi = nondet_u64(), ri = nondet_u64();
  verif_assume(len <= max && wi <= len && ri <= wi);
  b->data.ptr = mem;
  b->data.len = len;
  b->meta.wi = wi;
  b->meta.ri = ri;
  b->meta.pos = nondet_u64();
  b->meta.closed = nondet_u8() & 1;
}

static void check_status(wuffs_base__status st, wuffs_base__io_buffer* src, wuffs_base__io_buffer* dst) {
  if (st.repr == NULL) return;
  verif_check(*st.repr == '#' || *st.repr == '$' || *st.repr == '@', "any/status-has-a-proper-class");
  if (st.repr == wuffs_base__suspension__short_read) {
    verif_check(src->meta.ri == src->meta.wi, "any/short-read-only-when-the-source-is-drained");
  } else if (st.repr == wuffs_base__suspension__short_write) {
    verif_check(dst && (dst->meta.wi == dst->data.len || dst->meta.closed), "any/short-write-only-when-the-destination-is-full-or-closed");
  } else if (is_suspension(st)) {
    verif_check(0, "any/unexpected-suspension");
  }
}

static void any_src(src_coro fn) {
  uint8_t mem[8];
  wuffs_base__io_buffer src;
  make_buf(&src, mem, verif_param("N"));
  wuffs_demo__parser p;
  verif_check(wuffs_demo__parser__initialize(&p, sizeof p, WUFFS_VERSION, 0).repr == NULL, "any/init");
  for (int64_t k = 0; k < verif_param("CALLS"); k++) {
    wuffs_base__status st = fn(&p, &src);
    verif_check(src.meta.ri <= src.meta.wi && src.meta.wi <= src.data.len, "any/src-indexes");
    check_status(st, &src, NULL);
    if (!is_suspension(st)) break;
    // resume with whatever else there is: the caller appends (symbolically many) bytes
    uint64_t more = nondet_u64();
    verif_assume(more <= src.data.len - src.meta.wi);
    src.meta.wi += more;
    src.meta.closed = nondet_u8() & 1;
  }
  verif_reach("any/done");
}

static void any_io(io_coro fn) {
  uint8_t smem[8], dmem[4];
  wuffs_base__io_buffer src, dst;
  make_buf(&src, smem, verif_param("N"));
  make_buf(&dst, dmem, 4);
  wuffs_demo__parser p;
  verif_check(wuffs_demo__parser__initialize(&p, sizeof p, WUFFS_VERSION, 0).repr == NULL, "any/init");
  for (int64_t k = 0; k < verif_param("CALLS"); k++) {
    wuffs_base__status st = fn(&p, &dst, &src);
    verif_check(src.meta.ri <= src.meta.wi && src.meta.wi <= src.data.len, "any/src-indexes");
    verif_check(dst.meta.ri <= dst.meta.wi && dst.meta.wi <= dst.data.len, "any/dst-indexes");
    check_status(st, &src, &dst);
    if (!is_suspension(st)) break;
    uint64_t more = nondet_u64();
    verif_assume(more <= src.data.len - src.meta.wi);
    src.meta.wi += more;
    dst.meta.ri = dst.meta.wi;  // the caller drains what was written
    if (nondet_u8() & 1) {       // ... and may compact
      dst.meta.ri = 0;
      dst.meta.wi = 0;
    }
  }
  verif_reach("any/done");
}

void harness_any_f1(void) { any_src(wuffs_demo__parser__f1); }
void harness_any_f2(void) { any_src(wuffs_demo__parser__f2); }
void harness_any_f3(void) { any_src(wuffs_demo__parser__f3); }
void harness_any_f4(void) { any_src(wuffs_demo__parser__f4); }
void harness_any_f5(void) { any_src(wuffs_demo__parser__f5); }
void harness_any_f7(void) { any_src(wuffs_demo__parser__f7); }
void harness_any_f6(void) { any_io(wuffs_demo__parser__f6); }
void harness_any_f9(void) { any_io(wuffs_demo__parser__f9); }
void harness_any_transform(void) { any_io(call_transform); }

// ---- std hashers: any slice of any bytes ----

void harness_any_adler32(void) {
  uint8_t mem[16];
  for (int i = 0; i < 16; i++) mem[i] = nondet_u8();
  uint64_t off = nondet_u64(), n = nondet_u64();
  verif_assume(off <= 16 && n <= 16 - off && n <= (uint64_t)verif_param("N"));
  wuffs_adler32__hasher h;
  verif_check(wuffs_adler32__hasher__initialize(&h, sizeof h, WUFFS_VERSION, 0).repr == NULL, "any/init");
  uint32_t a = wuffs_adler32__hasher__update_u32(&h, wuffs_base__make_slice_u8(mem + off, n));
  verif_check((a & 0xFFFF) < 65521 && (a >> 16) < 65521, "any/adler32-halves-reduced");
  uint32_t b = wuffs_adler32__hasher__update_u32(&h, wuffs_base__make_slice_u8(mem, 0));
  verif_check(a == b, "any/adler32-empty-update-is-identity");
  verif_reach("any/done");
}

void harness_any_crc32(void) {
  uint8_t mem[16];
  for (int i = 0; i < 16; i++) mem[i] = nondet_u8();
  uint64_t off = nondet_u64(), n = nondet_u64();
  verif_assume(off <= 16 && n <= 16 - off && n <= (uint64_t)verif_param("N"));
  wuffs_crc32__ieee_hasher h;
  verif_check(wuffs_crc32__ieee_hasher__initialize(&h, sizeof h, WUFFS_VERSION, 0).repr == NULL, "any/init");
  uint32_t a = wuffs_crc32__ieee_hasher__update_u32(&h, wuffs_base__make_slice_u8(mem + off, n));
  uint32_t b = wuffs_crc32__ieee_hasher__checksum_u32(&h);
  verif_check(a == b, "any/crc32-checksum-getter");
  verif_reach("any/done");
}

// ---- std/lzw: arbitrary input bytes, arbitrary destination capacity ----

void harness_any_lzw(void) {
  uint8_t smem[8], dmem[8];
  wuffs_base__io_buffer src, dst;
  make_buf(&src, smem, verif_param("N"));
  src.meta.ri = 0;
  make_buf(&dst, dmem, 8);
  dst.meta.closed = false;
  static wuffs_lzw__decoder dec;
  verif_check(wuffs_lzw__decoder__initialize(&dec, sizeof dec, WUFFS_VERSION, 0).repr == NULL, "any/init");
  uint32_t lw = nondet_u8() & 7;
  wuffs_lzw__decoder__set_quirk(&dec, WUFFS_LZW__QUIRK_LITERAL_WIDTH_PLUS_ONE, 1 + lw);
  for (int64_t k = 0; k < verif_param("CALLS"); k++) {
    uint64_t ri0 = src.meta.ri, wi0 = dst.meta.wi;
    wuffs_base__status st = wuffs_lzw__decoder__transform_io(&dec, &dst, &src, wuffs_base__empty_slice_u8());
    verif_check(src.meta.ri >= ri0 && src.meta.ri <= src.meta.wi && src.meta.wi <= src.data.len, "any/src-indexes");
    verif_check(dst.meta.wi >= wi0 && dst.meta.ri <= dst.meta.wi && dst.meta.wi <= dst.data.len, "any/dst-indexes");
    check_status(st, &src, &dst);
    if (!is_suspension(st)) break;
    if (st.repr == wuffs_base__suspension__short_write) {
      dst.meta.ri = 0;
      dst.meta.wi = 0;
    } else {
      uint64_t more = nondet_u64();
      verif_assume(more <= src.data.len - src.meta.wi);
      src.meta.wi += more;
      src.meta.closed = true;
    }
  }
  verif_reach("any/done");
}

// ---- more std hashers: any slice of any bytes, fed in two arbitrary pieces ----

#define ANY_HASHER(NAME, TYPE, INIT, UPDATE, UPDATE_RET, CHECKSUM, RET)                                  \
  void NAME(void) {                                                                                      \
    uint8_t mem[24];                                                                                     \
    for (int i = 0; i < 24; i++) mem[i] = nondet_u8();                                                   \
    uint64_t off = nondet_u64(), n = nondet_u64(), k = nondet_u64();                                     \
    verif_assume(off <= 24 && n <= 24 - off && n <= (uint64_t)verif_param("N") && k <= n);              \
    TYPE h;                                                                                              \
    verif_check(INIT(&h, sizeof h, WUFFS_VERSION, 0).repr == NULL, "any/init");                          \
    UPDATE(&h, wuffs_base__make_slice_u8(mem + off, k));                                                 \
    RET a = UPDATE_RET(&h, wuffs_base__make_slice_u8(mem + off + k, n - k));                             \
    RET b = CHECKSUM(&h);                                                                                \
    verif_check(a == b, "any/hasher-checksum-getter");                                                   \
    verif_reach("any/done");                                                                             \
  }

ANY_HASHER(harness_any_crc64, wuffs_crc64__ecma_hasher, wuffs_crc64__ecma_hasher__initialize, wuffs_crc64__ecma_hasher__update,
           wuffs_crc64__ecma_hasher__update_u64, wuffs_crc64__ecma_hasher__checksum_u64, uint64_t)
ANY_HASHER(harness_any_xxhash32, wuffs_xxhash32__hasher, wuffs_xxhash32__hasher__initialize, wuffs_xxhash32__hasher__update,
           wuffs_xxhash32__hasher__update_u32, wuffs_xxhash32__hasher__checksum_u32, uint32_t)
ANY_HASHER(harness_any_xxhash64, wuffs_xxhash64__hasher, wuffs_xxhash64__hasher__initialize, wuffs_xxhash64__hasher__update,
           wuffs_xxhash64__hasher__update_u64, wuffs_xxhash64__hasher__checksum_u64, uint64_t)

// ---- iterate loops with overlapping windows over slices of every length ----
// The slices end exactly at the end of their objects, so a stop offset that is too large shows
// up as an out-of-bounds access. The sums are compared with the documented iteration scheme.
#define SCAN_MAX 12
void harness_any_scan(void) {
  uint8_t smem[SCAN_MAX], tmem[SCAN_MAX];
  for (int i = 0; i < SCAN_MAX; i++) {
    smem[i] = nondet_u8();
    tmem[i] = nondet_u8();
  }
  uint64_t n = nondet_u64(), m = nondet_u64();
  verif_assume(n <= (uint64_t)verif_param("N") && m <= (uint64_t)verif_param("N"));
  n = verif_conc(n);
  m = verif_conc(m);
  uint8_t* s = smem + (SCAN_MAX - n);
  uint8_t* t = tmem + (SCAN_MAX - m);
  uint32_t total = 0, count = 0;
  uint64_t i = 0;
  for (; n - i >= 4; i += 3) total += (uint32_t)s[i] | ((uint32_t)s[i + 1] << 8) | ((uint32_t)s[i + 2] << 16) | ((uint32_t)s[i + 3] << 24);
  for (; n - i >= 3; i += 3) count += (uint32_t)s[i] | ((uint32_t)s[i + 1] << 8) | ((uint32_t)s[i + 2] << 16);
  wuffs_demo__parser p;
  verif_check(wuffs_demo__parser__initialize(&p, sizeof p, WUFFS_VERSION, 0).repr == NULL, "any/init");
  wuffs_demo__parser__scan(&p, wuffs_base__make_slice_u8(s, n), wuffs_base__make_slice_u8(t, m));
  verif_check(p.private_impl.f_total == total, "scan/overlapping-windows-sum");
  verif_check(p.private_impl.f_acc == 0, "scan/nothing-left-for-the-second-overlapping-loop");
  verif_check(p.private_impl.f_count == count, "scan/tail-sum");
  verif_reach("any/done");
}

// ---- io_reader.match7: peek-like prefix match on every number of readable bytes ----
// The readable bytes end exactly at the end of their object. Result: 0 match, 2 mismatch,
// 1 inconclusive (too few bytes and the source is not closed), as the helper's comment states.
#define M7_MAX 10
void harness_match7(void) {
  uint8_t mem[M7_MAX];
  for (int i = 0; i < M7_MAX; i++) mem[i] = nondet_u8();
  uint64_t avail = nondet_u64();
  verif_assume(avail <= M7_MAX);
  avail = verif_conc(avail);
  uint64_t a = nondet_u64();
  // prefix lengths 1..7, as every caller in std/ passes (constants). With n == 0 and 8 readable bytes
  // the helper evaluates a << 64 (undefined in C): recorded in DESIGN.md as an observation, not as a
  // violation of this property, because no standard-library decoder can reach it.
  verif_assume((a & 7) != 0);
  uint64_t n = verif_conc(a & 7);
  const uint8_t* iop = mem + (M7_MAX - avail);
  const uint8_t* io2 = mem + M7_MAX;
  wuffs_base__io_buffer r = wuffs_base__ptr_u8__reader(mem, M7_MAX, false);
  r.meta.closed = nondet_u8() & 1;
  int with_r = nondet_u8() & 1;
  uint32_t got = wuffs_private_impl__io_reader__match7(iop, io2, with_r ? &r : NULL, a);
  uint32_t want = 0;
  for (uint64_t i = 0; i < n; i++) {
    if (i >= avail) {
      want = (with_r && r.meta.closed) ? 2 : 1;
      break;
    }
    if (iop[i] != (uint8_t)(a >> (8 * (i + 1)))) {
      want = 2;
      break;
    }
  }
  verif_check(got == want, "match7/result");
  verif_reach("match7/done");
}
