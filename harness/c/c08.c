// C08: generated objects enforce their call protocol and the I/O buffer contract.
// The object starts as arbitrary memory. A script of STEPS calls is chosen symbolically among
// initialize (good/bad sizeof, good/bad version, all option bits) and the coroutines f1, f2, poke,
// transform_io with valid or NULL buffers whose contents and indexes are symbolic. A small
// model of the protocol (doc/note/statuses.md, initialization.md) predicts the status class of
// every call; after every call the I/O buffer contract is asserted.
#define WUFFS_IMPLEMENTATION
#define WUFFS_CONFIG__AVOID_CPU_ARCH
#define WUFFS_CONFIG__MODULES
#define WUFFS_CONFIG__MODULE__BASE
#define WUFFS_CONFIG__MODULE__DEMO
#include "wuffs-corpus-demo.c"
#include "verif.h"

#define BUFLEN 3

static int is_error(wuffs_base__status s) { return s.repr && (*s.repr == '#'); }
static int is_suspension(wuffs_base__status s) { return s.repr && (*s.repr == '$'); }

typedef struct {
  uint8_t bytes[BUFLEN];
  uint8_t before[BUFLEN];
  wuffs_base__io_buffer buf;
  uint64_t ri0, wi0;
} vbuf;

// a source/destination buffer with symbolic contents and symbolic 0 <= ri <= wi <= len
static void vbuf_make(vbuf* b) {
  for (int i = 0; i < BUFLEN; i++) b->bytes[i] = nondet_u8();
  uint64_t len = nondet_u64(), wi = nondet_u64(), ri = nondet_u64();
  verif_assume(len <= BUFLEN && wi <= len && ri <= wi);
  b->buf.data.ptr = b->bytes;
  b->buf.data.len = len;
  b->buf.meta.wi = wi;
  b->buf.meta.ri = ri;
  b->buf.meta.pos = 0;
  b->buf.meta.closed = nondet_u8() & 1;
}

static void vbuf_snapshot(vbuf* b) {
  for (int i = 0; i < BUFLEN; i++) b->before[i] = b->bytes[i];
  b->ri0 = b->buf.meta.ri;
  b->wi0 = b->buf.meta.wi;
}

static void vbuf_check_src(vbuf* b) {
  verif_check(b->buf.meta.ri <= b->buf.meta.wi && b->buf.meta.wi <= b->buf.data.len, "io/src-ri-wi-len-order");
  verif_check(b->buf.meta.ri >= b->ri0, "io/src-read-index-never-moves-back");
  verif_check(b->buf.meta.wi == b->wi0, "io/src-write-index-untouched");
  for (int i = 0; i < BUFLEN; i++) verif_check(b->bytes[i] == b->before[i], "io/src-bytes-unchanged");
}

static void vbuf_check_dst(vbuf* b) {
  verif_check(b->buf.meta.ri <= b->buf.meta.wi && b->buf.meta.wi <= b->buf.data.len, "io/dst-ri-wi-len-order");
  verif_check(b->buf.meta.wi >= b->wi0, "io/dst-write-index-never-moves-back");
  verif_check(b->buf.meta.ri == b->ri0, "io/dst-read-index-untouched");
  for (uint64_t i = 0; i < BUFLEN; i++) {
    // branch-free: bytes in [wi0, len) may change, all others may not
    int writable = (i >= b->wi0) & (i < b->buf.data.len);
    verif_check(writable | (b->bytes[i] == b->before[i]), "io/dst-bytes-already-written-or-beyond-len-unchanged");
  }
}

// model of the object's life cycle
enum { M_RAW, M_READY, M_DISABLED };

void harness_protocol(void) {
  wuffs_demo__parser p;
  verif_garbage(&p, sizeof p);
  // arbitrary memory that is not, by chance, one of the two magic values
  verif_assume(p.private_impl.magic != WUFFS_BASE__MAGIC && p.private_impl.magic != WUFFS_BASE__DISABLED);
  int state = M_RAW;
  int active = 0;  // 0: none; otherwise the op number of the suspended coroutine

  for (int64_t step = 0; step < verif_param("STEPS"); step++) {
    uint64_t op = nondet_u64();
    verif_assume(op < 7);
    op = verif_conc(op);
    if (op == 0) {
      // initialize
      uint64_t sz = sizeof p, ver = WUFFS_VERSION;
      uint64_t bad = nondet_u64();
      verif_assume(bad < 4);
      bad = verif_conc(bad);
      if (bad == 1) sz = sizeof p - 1;
      if (bad == 2) ver = WUFFS_VERSION + (1ull << 32);            // another major version
      if (bad == 3) ver = WUFFS_VERSION + (1ull << 16);            // a newer minor version
      uint32_t options = 0;
      if (nondet_u8() & 1) options |= WUFFS_INITIALIZE__LEAVE_INTERNAL_BUFFERS_UNINITIALIZED;
      wuffs_base__status st = wuffs_demo__parser__initialize(&p, sz, ver, options);
      if (bad == 1) {
        verif_check(st.repr == wuffs_base__error__bad_sizeof_receiver, "init/wrong-size-rejected");
      } else if (bad == 2 || bad == 3) {
        verif_check(st.repr == wuffs_base__error__bad_wuffs_version, "init/wrong-version-rejected");
      } else {
        verif_check(st.repr == NULL, "init/ok");
        state = M_READY;
        active = 0;
      }
      continue;
    }
    if (op == 4) {
      // a non-coroutine (pure) method: callable in any initialised state, even on a disabled object
      uint64_t q = wuffs_demo__parser__get_quirk(&p, (uint32_t)nondet_u32());
      verif_check(q == 0, "pure/get-quirk-value");
      continue;
    }
    // a coroutine call: op 1 = transform_io, 2 = f1, 3 = f2, 5 = poke (no suspension point of its own),
    // 6 = undo (can_undo_byte / undo_byte on both streams)
    vbuf src, dst;
    vbuf_make(&src);
    int src_null = nondet_u8() & 1, dst_null = 0;
    vbuf_snapshot(&src);
    wuffs_base__status st;
    if (op == 1) {
      vbuf_make(&dst);
      dst_null = nondet_u8() & 1;
      vbuf_snapshot(&dst);
      st = wuffs_demo__parser__transform_io(&p, dst_null ? NULL : &dst.buf, src_null ? NULL : &src.buf, wuffs_base__empty_slice_u8());
      vbuf_check_dst(&dst);
    } else if (op == 6) {
      vbuf_make(&dst);
      dst_null = nondet_u8() & 1;
      vbuf_snapshot(&dst);
      st = wuffs_demo__parser__undo(&p, dst_null ? NULL : &dst.buf, src_null ? NULL : &src.buf);
      vbuf_check_dst(&dst);
    } else if (op == 2) {
      st = wuffs_demo__parser__f1(&p, src_null ? NULL : &src.buf);
    } else if (op == 3) {
      st = wuffs_demo__parser__f2(&p, src_null ? NULL : &src.buf);
    } else {
      st = wuffs_demo__parser__poke(&p, src_null ? NULL : &src.buf);
    }
    vbuf_check_src(&src);

    if (state == M_RAW) {
      verif_check(st.repr == wuffs_base__error__initialize_not_called, "protocol/initialize-not-called");
    } else if (state == M_DISABLED) {
      verif_check(st.repr == wuffs_base__error__disabled_by_previous_error, "protocol/disabled-by-previous-error");
    } else if (src_null || dst_null) {
      verif_check(st.repr == wuffs_base__error__bad_argument, "protocol/null-argument-rejected");
      state = M_DISABLED;
    } else if (active != 0 && active != (int)op) {
      verif_check(st.repr == wuffs_base__error__interleaved_coroutine_calls, "protocol/interleaved-coroutine-calls");
      state = M_DISABLED;
    } else {
      verif_check(st.repr != wuffs_base__error__initialize_not_called && st.repr != wuffs_base__error__disabled_by_previous_error &&
                      st.repr != wuffs_base__error__interleaved_coroutine_calls,
                  "protocol/runs-when-allowed");
      if (is_error(st)) {
        state = M_DISABLED;
      } else if (is_suspension(st)) {
        active = (int)op;
        if (st.repr == wuffs_base__suspension__short_read) {
          verif_check(src.buf.meta.ri == src.buf.meta.wi, "protocol/short-read-justified");
        } else {
          verif_check(st.repr == wuffs_base__suspension__short_write && (op == 1 || op == 6) && (dst.buf.meta.wi == dst.buf.data.len || dst.buf.meta.closed), "protocol/short-write-justified");
        }
      } else {
        verif_check(st.repr == NULL, "protocol/ok-is-null-status");
        active = 0;
      }
    }
    verif_reach("protocol/call");
  }
  verif_reach("protocol/done");
}
