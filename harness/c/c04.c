// C04: the generated C computes what the Wuffs source means (translation validation).
// The C generated from harness/wuffs/tv/tv.wuffs by the tree's wuffs-c runs on an initialised
// receiver whose fields hold arbitrary values inside their refinements, with arbitrary arguments
// inside theirs; the same call is made on the reference interpreter of the checked AST
// (engine/wuffsym, behind verif_spec_*). Result and every receiver field must agree.
#define WUFFS_IMPLEMENTATION
#define WUFFS_CONFIG__AVOID_CPU_ARCH
#define WUFFS_CONFIG__MODULES
#define WUFFS_CONFIG__MODULE__BASE
#define WUFFS_CONFIG__MODULE__TV
#include "wuffs-corpus-tv.c"
#include "verif.h"

static void setup(wuffs_tv__calc* c) {
  wuffs_base__status st = wuffs_tv__calc__initialize(c, sizeof(*c), WUFFS_VERSION, 0);
  verif_assume(st.repr == NULL);
  c->private_impl.f_a8 = nondet_u8();
  c->private_impl.f_a16 = nondet_u16();
  c->private_impl.f_a32 = nondet_u32();
  c->private_impl.f_a64 = nondet_u64();
  c->private_impl.f_lim = nondet_u32();
  verif_assume(c->private_impl.f_lim <= 7);
  for (int i = 0; i < 8; i++) c->private_impl.f_tab[i] = nondet_u8();
  for (int i = 0; i < 4; i++) c->private_impl.f_wtab[i] = nondet_u32();
  verif_spec_reset("calc");
  verif_spec_set("a8", 0, c->private_impl.f_a8);
  verif_spec_set("a16", 0, c->private_impl.f_a16);
  verif_spec_set("a32", 0, c->private_impl.f_a32);
  verif_spec_set("a64", 0, c->private_impl.f_a64);
  verif_spec_set("lim", 0, c->private_impl.f_lim);
  for (int i = 0; i < 8; i++) verif_spec_set("tab", i, c->private_impl.f_tab[i]);
  for (int i = 0; i < 4; i++) verif_spec_set("wtab", i, c->private_impl.f_wtab[i]);
}

static void compare_fields(wuffs_tv__calc* c);

static void compare(wuffs_tv__calc* c) {
  compare_fields(c);
  verif_check(c->private_impl.magic == WUFFS_BASE__MAGIC, "tv/object-still-usable");
  verif_reach("tv/done");
}

static void compare_fields(wuffs_tv__calc* c) {
  verif_check(c->private_impl.f_a8 == verif_spec_get("a8", 0), "tv/field-a8");
  verif_check(c->private_impl.f_a16 == verif_spec_get("a16", 0), "tv/field-a16");
  verif_check(c->private_impl.f_a32 == verif_spec_get("a32", 0), "tv/field-a32");
  verif_check(c->private_impl.f_a64 == verif_spec_get("a64", 0), "tv/field-a64");
  verif_check(c->private_impl.f_lim == verif_spec_get("lim", 0), "tv/field-lim");
  for (int i = 0; i < 8; i++) verif_check(c->private_impl.f_tab[i] == verif_spec_get("tab", i), "tv/field-tab");
  for (int i = 0; i < 4; i++) verif_check(c->private_impl.f_wtab[i] == verif_spec_get("wtab", i), "tv/field-wtab");
}

void harness_tv_arith8(void) {
  wuffs_tv__calc c;
  setup(&c);
  uint8_t x = nondet_u8(), y = nondet_u8();
  uint64_t got = wuffs_tv__calc__arith8(&c, x, y);
  verif_check(got == verif_spec_call("arith8", x, y, 0, 0), "tv/result");
  compare(&c);
}

void harness_tv_arith16(void) {
  wuffs_tv__calc c;
  setup(&c);
  uint16_t x = nondet_u16(), y = nondet_u16();
  uint64_t got = wuffs_tv__calc__arith16(&c, x, y);
  verif_check(got == verif_spec_call("arith16", x, y, 0, 0), "tv/result");
  compare(&c);
}

void harness_tv_arith32(void) {
  wuffs_tv__calc c;
  setup(&c);
  uint32_t x = nondet_u32(), y = nondet_u32();
  uint64_t got = wuffs_tv__calc__arith32(&c, x, y);
  verif_check(got == verif_spec_call("arith32", x, y, 0, 0), "tv/result");
  compare(&c);
}

void harness_tv_arith64(void) {
  wuffs_tv__calc c;
  setup(&c);
  uint64_t x = nondet_u64(), y = nondet_u64();
  uint64_t got = wuffs_tv__calc__arith64(&c, x, y);
  verif_check(got == verif_spec_call("arith64", x, y, 0, 0), "tv/result");
  compare(&c);
}

void harness_tv_ideal(void) {
  wuffs_tv__calc c;
  setup(&c);
  uint32_t x = nondet_u32(), y = nondet_u32();
  uint8_t z = nondet_u8();
  uint64_t got = wuffs_tv__calc__ideal(&c, x, y, z);
  verif_check(got == verif_spec_call("ideal", x, y, z, 0), "tv/result");
  compare(&c);
}

void harness_tv_compare(void) {
  wuffs_tv__calc c;
  setup(&c);
  uint32_t x = nondet_u32(), y = nondet_u32();
  uint8_t p = nondet_u8(), q = nondet_u8();
  uint64_t got = wuffs_tv__calc__compare(&c, x, y, p, q);
  verif_check(got == verif_spec_call("compare", x, y, p, q), "tv/result");
  compare(&c);
}

void harness_tv_builtins(void) {
  wuffs_tv__calc c;
  setup(&c);
  uint32_t x = nondet_u32(), y = nondet_u32(), n = nondet_u32();
  uint64_t got = wuffs_tv__calc__builtins(&c, x, y, n);
  verif_check(got == verif_spec_call("builtins", x, y, n, 0), "tv/result");
  compare(&c);
}

void harness_tv_arrays(void) {
  wuffs_tv__calc c;
  setup(&c);
  uint32_t i = nondet_u32(), j = nondet_u32();
  uint8_t v = nondet_u8();
  uint64_t got = wuffs_tv__calc__arrays(&c, i, j, v);
  verif_check(got == verif_spec_call("arrays", i, j, v, 0), "tv/result");
  compare(&c);
}

void harness_tv_jumps(void) {
  wuffs_tv__calc c;
  setup(&c);
  uint32_t x = nondet_u32();
  uint8_t y = nondet_u8();
  uint64_t got = wuffs_tv__calc__jumps(&c, x, y);
  verif_check(got == verif_spec_call("jumps", x, y, 0, 0), "tv/result");
  compare(&c);
}

void harness_tv_calls(void) {
  wuffs_tv__calc c;
  setup(&c);
  uint8_t x = nondet_u8();
  uint32_t y = nondet_u32();
  uint64_t got = wuffs_tv__calc__calls(&c, x, y);
  verif_check(got == verif_spec_call("calls", x, y, 0, 0), "tv/result");
  compare(&c);
}

// arguments inside the refinements: as above; outside: the call is rejected (doc/note/statuses.md,
// "bad argument"): the object is disabled and no field changes
void harness_tv_refined(void) {
  wuffs_tv__calc c;
  setup(&c);
  uint32_t x = nondet_u32();
  uint8_t y = nondet_u8();
  wuffs_tv__calc__refined(&c, x, y);
  if (x >= 5 && x <= 10 && y <= 200) {
    (void)verif_spec_call("refined", x, y, 0, 0);
    compare(&c);
  } else {
    compare_fields(&c);
    verif_check(c.private_impl.magic == WUFFS_BASE__DISABLED, "tv/bad-argument-disables-the-object");
    verif_reach("tv/done");
  }
}
