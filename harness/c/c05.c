// C05: coroutine results do not depend on where the I/O streams are split.
// Two executions of the same generated code on the same symbolic bytes: A gets everything in
// one call (closed source, ample destination); B gets the source in pieces split at symbolic
// points (and, for transform_io, a destination of symbolic capacity that is drained between
// calls). Final status, output bytes, consumed count and the object's public/private state
// must agree.
#define WUFFS_IMPLEMENTATION
#define WUFFS_CONFIG__AVOID_CPU_ARCH
#define WUFFS_CONFIG__MODULES
#define WUFFS_CONFIG__MODULE__BASE
#define WUFFS_CONFIG__MODULE__ADLER32
#define WUFFS_CONFIG__MODULE__CRC32
#define WUFFS_CONFIG__MODULE__DEMO
#include "wuffs-std-adler32.c"
#include "wuffs-std-crc32.c"
#include "wuffs-corpus-demo.c"
#include "verif.h"

#define MAXN 12

static int is_suspension(wuffs_base__status s) { return s.repr && (*s.repr == '$'); }

// ---- src-only coroutines of the corpus: f1 .. f5 ----

typedef wuffs_base__status (*src_coro)(wuffs_demo__parser*, wuffs_base__io_buffer*);

static void split_src_only(src_coro fn) {
  uint8_t in[MAXN];
  uint64_t n = verif_conc(nondet_u64() % (verif_param("N") + 1));
  for (uint64_t i = 0; i < n; i++) in[i] = nondet_u8();

  // A: one call, everything there, closed
  wuffs_demo__parser a;
  verif_check(wuffs_demo__parser__initialize(&a, sizeof a, WUFFS_VERSION, 0).repr == NULL, "split/init-a");
  wuffs_base__io_buffer sa = wuffs_base__ptr_u8__reader(in, n, true);
  wuffs_base__status ra = fn(&a, &sa);

  // B: up to SPLITS split points k1 <= k2 <= ... <= n; the source grows at each resumption
  wuffs_demo__parser b;
  verif_check(wuffs_demo__parser__initialize(&b, sizeof b, WUFFS_VERSION, 0).repr == NULL, "split/init-b");
  wuffs_base__io_buffer sb = wuffs_base__ptr_u8__reader(in, n, false);
  uint64_t k = 0;
  wuffs_base__status rb = wuffs_base__make_status(NULL);
  int calls = 0;
  for (int64_t s = 0; s <= verif_param("SPLITS"); s++) {
    if (s < verif_param("SPLITS")) {
      uint64_t k2 = nondet_u64();
      verif_assume(k <= k2 && k2 <= n);
      k = verif_conc(k2);
      sb.meta.wi = k;
      sb.meta.closed = false;
    } else {
      sb.meta.wi = n;
      sb.meta.closed = true;
    }
    rb = fn(&b, &sb);
    calls++;
    verif_check(sb.meta.ri <= sb.meta.wi, "split/ri-within-wi");
    if (!is_suspension(rb)) break;
    // a suspension must be a short read, and only once the bytes supplied so far are used up
    // (a coroutine may read ahead less than a whole multi-byte value: then ri < wi is fine)
    verif_check(rb.repr == wuffs_base__suspension__short_read, "split/suspension-is-short-read");
    if (sb.meta.closed) break;  // truncated input: the short read on a closed source is final, as in A
  }
  verif_check(ra.repr == rb.repr, "split/same-final-status");
  if (!wuffs_base__status__is_error(&ra)) {
    verif_check(sa.meta.ri == sb.meta.ri, "split/same-consumed-count");
  }
  verif_check(a.private_impl.f_total == b.private_impl.f_total, "split/same-state-total");
  verif_check(a.private_impl.f_count == b.private_impl.f_count, "split/same-state-count");
  verif_check(a.private_impl.f_acc == b.private_impl.f_acc, "split/same-state-acc");
  verif_check(a.private_impl.f_last == b.private_impl.f_last, "split/same-state-last");
  verif_check(a.private_impl.f_wide == b.private_impl.f_wide, "split/same-state-wide");
  for (int i = 0; i < 8; i++) verif_check(a.private_data.f_scratch[i] == b.private_data.f_scratch[i], "split/same-state-scratch");
  verif_reach("split/done");
}

void harness_split_f1(void) { split_src_only(wuffs_demo__parser__f1); }
void harness_split_f2(void) { split_src_only(wuffs_demo__parser__f2); }
void harness_split_f3(void) { split_src_only(wuffs_demo__parser__f3); }
void harness_split_f4(void) { split_src_only(wuffs_demo__parser__f4); }
void harness_split_f5(void) { split_src_only(wuffs_demo__parser__f5); }
void harness_split_f7(void) { split_src_only(wuffs_demo__parser__f7); }
void harness_split_f8(void) { split_src_only(wuffs_demo__parser__f8); }

// ---- transform_io of the corpus: source and destination both split ----

typedef wuffs_base__status (*io_coro)(wuffs_demo__parser*, wuffs_base__io_buffer*, wuffs_base__io_buffer*);

static wuffs_base__status call_transform(wuffs_demo__parser* p, wuffs_base__io_buffer* d, wuffs_base__io_buffer* s) {
  return wuffs_demo__parser__transform_io(p, d, s, wuffs_base__empty_slice_u8());
}

static void split_dst_src(io_coro fn) {
  uint8_t in[MAXN];
  uint64_t n = verif_conc(nondet_u64() % (verif_param("N") + 1));
  for (uint64_t i = 0; i < n; i++) in[i] = nondet_u8();

  wuffs_demo__parser a;
  verif_check(wuffs_demo__parser__initialize(&a, sizeof a, WUFFS_VERSION, 0).repr == NULL, "split/init-a");
  uint8_t outa[16] = {0};
  wuffs_base__io_buffer da = wuffs_base__ptr_u8__writer(outa, sizeof outa);
  wuffs_base__io_buffer sa = wuffs_base__ptr_u8__reader(in, n, true);
  wuffs_base__status ra = fn(&a, &da, &sa);

  wuffs_demo__parser b;
  verif_check(wuffs_demo__parser__initialize(&b, sizeof b, WUFFS_VERSION, 0).repr == NULL, "split/init-b");
  uint8_t outb[16] = {0};  // everything drained from the small destination
  uint64_t nb = 0;
  uint8_t win[4];
  uint64_t cap = nondet_u64();
  verif_assume(1 <= cap && cap <= 4);
  cap = verif_conc(cap);
  wuffs_base__io_buffer db = wuffs_base__ptr_u8__writer(win, cap);
  wuffs_base__io_buffer sb = wuffs_base__ptr_u8__reader(in, n, false);
  uint64_t k = nondet_u64();
  verif_assume(k <= n);
  k = verif_conc(k);
  sb.meta.wi = k;
  wuffs_base__status rb = wuffs_base__make_status(NULL);
  for (int64_t step = 0; step < verif_param("STEPS"); step++) {
    uint64_t wi0 = db.meta.wi, ri0 = sb.meta.ri;
    rb = fn(&b, &db, &sb);
    verif_check(sb.meta.ri >= ri0 && sb.meta.ri <= sb.meta.wi, "split/src-index-monotone");
    verif_check(db.meta.wi >= wi0 && db.meta.wi <= db.data.len, "split/dst-index-monotone");
    // drain the destination
    for (uint64_t i = db.meta.ri; i < db.meta.wi; i++) {
      if (nb < sizeof outb) outb[nb++] = win[i];
    }
    db.meta.ri = 0;
    db.meta.wi = 0;
    if (!is_suspension(rb)) break;
    if (rb.repr == wuffs_base__suspension__short_read) {
      if (sb.meta.closed) break;  // truncated input: final, as in A
      sb.meta.wi = n;
      sb.meta.closed = true;
    } else {
      verif_check(rb.repr == wuffs_base__suspension__short_write, "split/suspension-kind");
    }
  }
  verif_assume(!is_suspension(rb) || sb.meta.closed);  // STEPS calls were enough (otherwise outside the bound)
  verif_assume(rb.repr != wuffs_base__suspension__short_write);
  verif_check(ra.repr == rb.repr, "split/same-final-status");
  if (!wuffs_base__status__is_error(&ra)) {
    verif_check(sa.meta.ri == sb.meta.ri, "split/same-consumed-count");
    verif_check(da.meta.wi == nb, "split/same-output-length");
    for (uint64_t i = 0; i < 16; i++) {
      if (i < da.meta.wi && i < nb) verif_check(outa[i] == outb[i], "split/same-output-bytes");
    }
  }
  verif_check(a.private_impl.f_total == b.private_impl.f_total, "split/same-state-total");
  verif_check(a.private_impl.f_count == b.private_impl.f_count, "split/same-state-count");
  verif_check(a.private_impl.f_last == b.private_impl.f_last, "split/same-state-last");
  verif_reach("split/done");
}

void harness_split_transform(void) { split_dst_src(call_transform); }
void harness_split_f6(void) { split_dst_src(wuffs_demo__parser__f6); }
void harness_split_f9(void) { split_dst_src(wuffs_demo__parser__f9); }

// ---- std hashers: update over a partition equals update over the whole ----

void harness_split_adler32(void) {
  uint8_t in[MAXN];
  uint64_t n = verif_conc(nondet_u64() % (verif_param("N") + 1));
  for (uint64_t i = 0; i < n; i++) in[i] = nondet_u8();
  uint64_t k = nondet_u64();
  verif_assume(k <= n);
  k = verif_conc(k);
  wuffs_adler32__hasher a, b;
  verif_check(wuffs_adler32__hasher__initialize(&a, sizeof a, WUFFS_VERSION, 0).repr == NULL, "split/init-a");
  verif_check(wuffs_adler32__hasher__initialize(&b, sizeof b, WUFFS_VERSION, 0).repr == NULL, "split/init-b");
  uint32_t ha = wuffs_adler32__hasher__update_u32(&a, wuffs_base__make_slice_u8(in, n));
  wuffs_adler32__hasher__update(&b, wuffs_base__make_slice_u8(in, k));
  uint32_t hb = wuffs_adler32__hasher__update_u32(&b, wuffs_base__make_slice_u8(in + k, n - k));
  verif_check(ha == hb, "split/adler32-partition");
  verif_check(wuffs_adler32__hasher__checksum_u32(&a) == ha, "split/adler32-checksum-getter");
  verif_reach("split/done");
}

void harness_split_crc32(void) {
  uint8_t in[MAXN];
  uint64_t n = verif_conc(nondet_u64() % (verif_param("N") + 1));
  for (uint64_t i = 0; i < n; i++) in[i] = nondet_u8();
  uint64_t k = nondet_u64();
  verif_assume(k <= n);
  k = verif_conc(k);
  wuffs_crc32__ieee_hasher a, b;
  verif_check(wuffs_crc32__ieee_hasher__initialize(&a, sizeof a, WUFFS_VERSION, 0).repr == NULL, "split/init-a");
  verif_check(wuffs_crc32__ieee_hasher__initialize(&b, sizeof b, WUFFS_VERSION, 0).repr == NULL, "split/init-b");
  uint32_t ha = wuffs_crc32__ieee_hasher__update_u32(&a, wuffs_base__make_slice_u8(in, n));
  wuffs_crc32__ieee_hasher__update(&b, wuffs_base__make_slice_u8(in, k));
  uint32_t hb = wuffs_crc32__ieee_hasher__update_u32(&b, wuffs_base__make_slice_u8(in + k, n - k));
  verif_check(ha == hb, "split/crc32-partition");
  verif_reach("split/done");
}
