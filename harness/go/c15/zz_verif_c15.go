package rac

import (
	"errors"
	"hash/crc32"
	"io"
)

type vhRS15 struct {
	data []byte
	pos  int64
}

func (r *vhRS15) Read(p []byte) (int, error) {
	if r.pos >= int64(len(r.data)) {
		return 0, io.EOF
	}
	n := copy(p, r.data[r.pos:])
	r.pos += int64(n)
	return n, nil
}

func (r *vhRS15) Seek(offset int64, whence int) (int64, error) {
	switch whence {
	case io.SeekStart:
		if vParam("CONCSEEK") == 1 && offset >= 0 && offset <= int64(len(r.data)) {
			// case split on the position (every position in the file is explored, one path each):
			// reads at a concrete position need no symbolic array indexing
			offset = int64(vConc(int(offset)))
		}
		r.pos = offset
	case io.SeekCurrent:
		r.pos += offset
	default:
		r.pos = int64(len(r.data)) + offset
	}
	if r.pos < 0 {
		return 0, errors.New("vh: negative seek")
	}
	return r.pos, nil
}

// vhHostileFile builds a file of LEN symbolic bytes with designated index-node positions:
// LAYOUT 0: root node (ARITY1) at offset 0 and, when ARITY2 > 0, a second node right after it;
// LAYOUT 1: root node (ARITY1) at the end and, when ARITY2 > 0, a second node at offset 0.
// With ARITY3 > 0 a third node follows the second (three-level trees, mutual references).
// Only the magic and the first arity byte of designated nodes are fixed; every other byte
// (pointers, tags, lengths, reserved bytes, second arity byte, version, everything outside the
// nodes) is symbolic. The checksum of a designated node is "repaired" (or not: symbolic choice).
// The first magic byte (0x72) is assumed not to occur at any other offset inside the nodes, and
// the bytes outside the nodes (chunk data, never read by ChunkReader) are zero, so that no
// checksum is ever evaluated outside the designated nodes (where it could not be repaired for
// the native replay). SHAPE=2 is the pointer-arithmetic family (see below).
func vhHostileFile() []byte {
	n := vParam("LEN")
	f := vBytes("f", n)
	a1, a2 := vParam("ARITY1"), vParam("ARITY2")
	s1, s2 := 16*a1+16, 16*a2+16
	var offs, sizes []int
	a3 := vParam("ARITY3")
	s3 := 16*a3 + 16
	arities := []int{a1, a2, a3}
	if vParam("LAYOUT") == 0 {
		offs, sizes = append(offs, 0), append(sizes, s1)
		if a2 > 0 {
			offs, sizes = append(offs, s1), append(sizes, s2)
		}
		if a3 > 0 {
			offs, sizes = append(offs, s1+s2), append(sizes, s3)
		}
	} else {
		offs, sizes = append(offs, n-s1), append(sizes, s1)
		if a2 > 0 {
			offs, sizes = append(offs, 0), append(sizes, s2)
			if a3 > 0 {
				offs, sizes = append(offs, s2), append(sizes, s3)
			}
		} else {
			// the file must still start with the magic; arity byte 0 sends the reader to the end
			f[0], f[1], f[2], f[3] = 0x72, 0xC3, 0x63, 0
			offs, sizes = append(offs, 0), append(sizes, 0)
		}
	}
	for k, o := range offs {
		if sizes[k] == 0 {
			continue
		}
		if o < 0 || o+sizes[k] > n {
			vAssume(false)
		}
		f[o], f[o+1], f[o+2] = 0x72, 0xC3, 0x63
		f[o+3] = byte(arities[k])
	}
	for o := 0; o+3 <= n; o++ {
		designated := false
		for _, d := range offs {
			if d == o {
				designated = true
			}
		}
		if !designated {
			inNode := false
			for k, d := range offs {
				sz := sizes[k]
				if sz == 0 {
					sz = 4 // the bare "magic + zero arity" header of a file whose root is at the end
				}
				if o > d && o < d+sz {
					inNode = true
				}
			}
			if inNode {
				// the first magic byte does not occur inside a node other than at its start
				vAssume(f[o] != 0x72)
			} else {
				f[o] = 0 // bytes outside the index nodes are chunk data, which ChunkReader never reads
			}
		}
	}
	if vParam("SHAPE") == 2 && a1 == 2 && a2 == 1 && len(offs) == 2 {
		// the pointer-arithmetic family: a two-element root (leaf, branch) over a one-element child.
		// Tags, codec, version, reserved bytes and the decompressed sizes are fixed; every CPtr,
		// CLen, STag and CPtrMax field of both nodes and the root's DPtr[1] are symbolic (55 bytes).
		r, c := offs[0], offs[1]
		const dSize = 0x1000
		fix := func(o int, v byte) { f[o] = v }
		fix(r+6, 0)
		fix(r+7, 0xFF)
		fix(r+14, 0)
		fix(r+15, 0xFE)
		fix(r+16, dSize&0xFF)
		fix(r+17, dSize>>8)
		fix(r+18, 0)
		fix(r+19, 0)
		fix(r+20, 0)
		fix(r+21, 0)
		fix(r+22, 0)
		fix(r+23, byte(CodecZlib>>56))
		fix(r+46, 1)
		fix(r+47, 2)
		fix(c+6, 0)
		fix(c+7, 0xFF)
		fix(c+8, dSize&0xFF)
		fix(c+9, dSize>>8)
		fix(c+10, 0)
		fix(c+11, 0)
		fix(c+12, 0)
		fix(c+13, 0)
		fix(c+14, 0)
		fix(c+15, byte(CodecZlib>>56))
		fix(c+30, 1)
		fix(c+31, 1)
	}
	for k, o := range offs {
		if sizes[k] == 0 {
			continue
		}
		c := crc32.ChecksumIEEE(f[o+6 : o+sizes[k]])
		c ^= c >> 16
		if vParam("SHAPE") == 2 || vBool("repair") {
			f[o+4], f[o+5] = byte(c), byte(c>>8)
		} else {
			vAssume(vOr(f[o+4] != byte(c), f[o+5] != byte(c>>8)))
		}
	}
	return f
}

// VH_C15_Walk: open, optionally seek, walk chunks; everything terminates, nothing panics,
// chunks are well-formed.
func VH_C15_Walk() {
	f := vhHostileFile()
	claimed := vI64("claimed")
	vAssume(vAnd(claimed >= int64(len(f))-1, claimed <= int64(len(f))+1))
	if vParam("SHAPE") == 2 {
		vAssume(claimed == int64(len(f))) // the pointer-arithmetic family: exact size, checksums repaired
	}
	cr := &ChunkReader{ReadSeeker: &vhRS15{data: f}, CompressedSize: claimed}
	ds, err := cr.DecompressedSize()
	if err != nil {
		// a rejected file stays rejected: walking it anyway must fail or still yield well-formed chunks
		c, err2 := cr.NextChunk()
		if err2 == nil {
			vCheck(c.CPrimary[0] <= c.CPrimary[1], "rejected/chunk-primary-range-well-formed")
			vCheck(vAnd(c.CPrimary[0] >= 0, c.CPrimary[1] <= claimed), "rejected/chunk-primary-range-inside-file")
			vCheck(c.DRange[0] < c.DRange[1], "rejected/chunk-drange-non-empty")
		}
		vReach("walk/rejected")
		return
	}
	vCheck(ds >= 0, "walk/decompressed-size-nonneg")
	pos := int64(0)
	seeked := false
	seekTo := int64(0)
	if vParam("SEEK") == 1 {
		seekTo = vI64("seek")
		vAssume(vAnd(seekTo >= -1, seekTo <= ds+1))
		if err := cr.SeekToChunkContaining(seekTo); err != nil {
			vCheck(seekTo < 0, "walk/seek-error-only-for-negative")
			vReach("walk/seek-rejected")
			return
		}
		seeked = true
	}
	for k := 0; k < vParam("STEPS"); k++ {
		c, err := cr.NextChunk()
		if err == io.EOF {
			if seeked {
				vCheck(seekTo >= ds, "walk/eof-after-seek-only-at-or-past-the-end")
			} else {
				vCheck(pos == ds, "walk/eof-only-at-decompressed-size")
			}
			vReach("walk/eof")
			return
		}
		if err != nil {
			_, err2 := cr.NextChunk()
			vCheck(err2 != nil, "walk/error-is-sticky")
			vReach("walk/error")
			return
		}
		vCheck(c.CPrimary[0] <= c.CPrimary[1], "chunk/primary-range-well-formed")
		vCheck(vAnd(c.CPrimary[0] >= 0, c.CPrimary[1] <= claimed), "chunk/primary-range-inside-file")
		vCheck(c.DRange[0] < c.DRange[1], "chunk/drange-non-empty")
		vCheck(c.DRange[1] <= ds, "chunk/drange-within-decompressed-size")
		if seeked {
			vCheck(vAnd(c.DRange[0] <= seekTo, seekTo < c.DRange[1]), "chunk/contains-the-seek-target")
			seeked = false
		} else {
			vCheck(c.DRange[0] == pos, "chunk/dranges-contiguous")
		}
		pos = c.DRange[1]
		vReach("walk/chunk")
	}
	vReach("walk/steps-exhausted")
}
