package lowleveljpeg

// Auxiliary lemmas over unexported functions and fields.

// VH_C18_Div: div(a, b) is a/b rounded to nearest, ties away from zero, for all valid operands.
func VH_C18_Div() {
	a, b := vI16("a"), vI16("b")
	vAssume(vAnd(a >= -1024, a <= 1023))
	vAssume(vAnd(b >= 1, b <= 255))
	q := int32(div(a, b))
	r := int32(a) - q*int32(b)
	if r < 0 {
		r = -r
	}
	vCheck(2*r <= int32(b), "div/nearest")
	vCheck(vImplies(2*r == int32(b), vOr(vAnd(a >= 0, q*int32(b) > int32(a)), vAnd(a < 0, q*int32(b) < int32(a)))), "div/ties-away-from-zero")
	vCheck(q == vhRound(int32(a), int32(b)), "div/equals-reference")
	vReach("div/done")
}

// VH_C18_EmitBits: from any accumulator state (bitsN < 8, bitsV holding only
// its top bitsN bits) emitBits appends exactly the low n bits of v to the bit
// stream, stuffs a zero after every 0xFF, and re-establishes the state invariant.
func VH_C18_EmitBits() {
	var e Encoder
	bn := vU32("bitsN")
	bv := vU32("bitsV")
	v := vU32("v")
	n := vU32("n")
	vAssume(bn <= 7)
	vAssume(bv&(0xFFFFFFFF>>bn) == 0)
	vAssume(n <= 16)
	e.bitsN, e.bitsV = bn, bv
	start := 5
	end := e.emitBits(start, v, n)
	out := e.buf[start:end]
	// unstuff
	val := uint64(0)
	nbytes := uint32(0)
	for i := 0; i < len(out); i++ {
		val = val<<8 | uint64(out[i])
		nbytes++
		if out[i] == 0xFF {
			vCheck(i+1 < len(out) && out[i+1] == 0x00, "emitbits/stuffing")
			i++
		}
	}
	vCheck(e.bitsN <= 7, "emitbits/state-bitsN")
	vCheck(e.bitsV&(0xFFFFFFFF>>e.bitsN) == 0, "emitbits/state-bitsV")
	vCheck(8*nbytes+e.bitsN == bn+n, "emitbits/bit-count")
	// the stream (bytes out, then pending bits) equals old pending bits followed by the low n bits of v
	got := val<<e.bitsN | uint64(e.bitsV>>(32-e.bitsN))
	if e.bitsN == 0 {
		got = val
	}
	oldPending := uint64(0)
	if bn != 0 {
		oldPending = uint64(bv >> (32 - bn))
	}
	want := oldPending<<n | uint64(v)&((1<<n)-1)
	vCheck(got == want, "emitbits/stream")
	vCheck(end-start <= 6, "emitbits/at-most-6-bytes")
	vReach("emitbits/done")
}

// VH_C18_HuffRun: for every value in [-2047, 2047], run length and table,
// emitHuffmanRun emits the code the DHT segment assigns to (run<<4 | category)
// followed by the category-bit "adjusted diff" that EXTEND maps back to value.
func VH_C18_HuffRun() {
	table := vParam("TABLE") // 0: DC luma, 1: AC luma, 2: DC chroma, 3: AC chroma
	var e Encoder
	value := vI32("value")
	run := vU32("run")
	vAssume(vAnd(value >= -2047, value <= 2047))
	if table%2 == 0 {
		vAssume(run == 0)
	} else {
		vAssume(vAnd(run <= 15, value != 0))
		if vParam("RUNS") == 1 {
			vAssume(vOr(run == 0, run == 15))
		}
		vAssume(vAnd(value >= -1023, value <= 1023))
	}
	end := e.emitHuffmanRun(0, table, run, value)
	vCheck(end <= 7, "huffrun/at-most-7-bytes")
	// flush the pending bits so that the reader sees whole bytes
	end = e.emitBits(end, 0x7F, 7)
	// reference tables from the DHT bytes the encoder writes
	seg := []byte(hardCodedDHTSegments)
	var tabs [4]vhHuff
	p := 4
	tabs[0], _, p = vhParseDHTTable(seg, p)
	tabs[1], _, p = vhParseDHTTable(seg, p)
	p += 4
	tabs[2], _, p = vhParseDHTTable(seg, p)
	tabs[3], _, p = vhParseDHTTable(seg, p)
	br := &vhBits{data: e.buf[:end]}
	rs := br.symbol(&tabs[table])
	vCheck(rs >= 0, "huffrun/decodable")
	if rs < 0 {
		return
	}
	vCheck(uint32(rs>>4) == run, "huffrun/run")
	got := br.receiveExtend(rs & 15)
	vCheck(!br.bad, "huffrun/decodable")
	vCheck(got == value, "huffrun/value")
	vReach("huffrun/done")
}

// VH_C18_Units: Reset computes ceil(w/m)*ceil(h/m) units (m = 8 or 16). One
// dimension is symbolic over its whole range, the other is pinned to an
// extreme (symbolic-by-symbolic multiplication is out of the solvers' reach).
func VH_C18_Units() {
	var e Encoder
	rec := &vhRec{}
	s := vInt("s")
	vAssume(vAnd(1 <= s, s <= 0xFFFF))
	w, h := s, s
	fixed := 1
	if vParam("MODE")&1 == 1 {
		fixed = 0xFFFF
	}
	if vParam("MODE")&2 == 0 {
		h = fixed
	} else {
		w = fixed
	}
	ct := vhColorType(vParam("CT"))
	vCheck(e.Reset(rec, ct, w, h, nil) == nil, "units/reset")
	m := 8
	if ct == ColorTypeYCbCr420 {
		m = 16
	}
	// ceil without division: cs is the unique integer with m*(cs-1) < s <= m*cs
	cs := uint32(vInt("cs"))
	vAssume(cs <= 0x2000)
	vAssume(vAnd(uint32(m)*cs >= uint32(s), uint32(m)*cs < uint32(s)+uint32(m)))
	cf := uint32((fixed + m - 1) / m)
	vCheck(e.numAddsRemaining == cs*cf, "units/count")
	hd, ok := vhParseHeader(append(rec.all, 0xFF, 0xD9))
	if ok {
		vCheck(hd.width == w && hd.height == h, "units/sof-dimensions")
	}
	vReach("units/done")
}
