package lowleveljpeg

// C18 harnesses (public API). The oracle is a baseline-JPEG reader written
// from the specification: marker segments, canonical Huffman codes built from
// the DHT bytes the encoder itself wrote, byte unstuffing, F.2.2 EXTEND.

type vhRec struct {
	all    []byte
	writes int
}

func (r *vhRec) Write(p []byte) (int, error) {
	r.all = append(r.all, p...)
	r.writes++
	return len(p), nil
}

type vhHuff struct {
	count  [17]int
	first  [17]int // first code of each length
	valptr [17]int
	vals   []byte
}

// vhParseDHTTable reads one table (class/id byte, 16 counts, values) at p.
func vhParseDHTTable(b []byte, p int) (h vhHuff, tcth byte, next int) {
	tcth = b[p]
	p++
	total := 0
	for l := 1; l <= 16; l++ {
		h.count[l] = int(b[p+l-1])
		total += h.count[l]
	}
	p += 16
	h.vals = b[p : p+total]
	code, k := 0, 0
	for l := 1; l <= 16; l++ {
		h.first[l] = code
		h.valptr[l] = k
		code += h.count[l]
		k += h.count[l]
		code <<= 1
	}
	return h, tcth, p + total
}

type vhBits struct {
	data []byte
	pos  int
	cur  uint32
	n    uint32
	bad  bool
}

func (b *vhBits) bit() uint32 {
	if b.n == 0 {
		if b.pos >= len(b.data) {
			b.bad = true
			return 0
		}
		v := b.data[b.pos]
		b.pos++
		if v == 0xFF {
			// a stuffed zero must follow inside entropy-coded data
			if b.pos >= len(b.data) || b.data[b.pos] != 0x00 {
				b.bad = true
				return 0
			}
			b.pos++
		}
		b.cur = uint32(v)
		b.n = 8
	}
	b.n--
	return (b.cur >> b.n) & 1
}

func (b *vhBits) symbol(h *vhHuff) int {
	code := 0
	for l := 1; l <= 16; l++ {
		code = code<<1 | int(b.bit())
		if b.bad {
			return -1
		}
		d := code - h.first[l]
		if d >= 0 && d < h.count[l] {
			return int(h.vals[vConc(h.valptr[l]+d)])
		}
	}
	b.bad = true
	return -1
}

// receiveExtend reads s bits and applies F.2.2 EXTEND, without branching on data.
func (b *vhBits) receiveExtend(s int) int32 {
	if s == 0 {
		return 0
	}
	v := int32(0)
	for i := 0; i < s; i++ {
		v = v<<1 | int32(b.bit())
	}
	neg := 1 - (v >> uint(s-1)) // 1 when the leading bit is 0
	return v - neg*((int32(1)<<uint(s))-1)
}

var vhZigzag = [64]int{
	0, 1, 8, 16, 9, 2, 3, 10, 17, 24, 32, 25, 18, 11, 4, 5,
	12, 19, 26, 33, 40, 48, 41, 34, 27, 20, 13, 6, 7, 14, 21, 28,
	35, 42, 49, 56, 57, 50, 43, 36, 29, 22, 15, 23, 30, 37, 44, 51,
	58, 59, 52, 45, 38, 31, 39, 46, 53, 60, 61, 54, 47, 55, 62, 63,
}

// vhDecodeBlock returns the 64 quantised coefficients in natural order.
func (b *vhBits) decodeBlock(dc, ac *vhHuff, prevDC *int32) (out [64]int32, ok bool) {
	s := b.symbol(dc)
	if s < 0 || s > 11 {
		return out, false
	}
	*prevDC += b.receiveExtend(s)
	out[0] = *prevDC
	for k := 1; k < 64; {
		rs := b.symbol(ac)
		if rs < 0 {
			return out, false
		}
		r, sz := rs>>4, rs&15
		if sz == 0 {
			if r == 15 {
				k += 16
				continue
			}
			if r != 0 {
				return out, false
			}
			break // EOB
		}
		k += r
		if k > 63 {
			return out, false
		}
		out[vhZigzag[k]] = b.receiveExtend(sz)
		k++
	}
	return out, !b.bad
}

// vhRound is the specification: a/b rounded to nearest, ties away from zero.
func vhRound(a int32, q int32) int32 {
	if a >= 0 {
		return (2*a + q) / (2 * q)
	}
	return -((-2*a + q) / (2 * q))
}

type vhHeader struct {
	q      [2][64]int32
	nq     int
	huff   [4]vhHuff // index: 2*id + class  (class 0 = DC, 1 = AC)
	width  int
	height int
	ncomp  int
	samp   [3]byte
	tq     [3]byte
	sos    int // offset just after the SOS header
}

func vhBE16(b []byte) int { return int(b[0])<<8 | int(b[1]) }

// vhParseHeader walks SOI, DQT, SOF0, DHT, SOS.
func vhParseHeader(f []byte) (h vhHeader, ok bool) {
	if len(f) < 4 || f[0] != 0xFF || f[1] != 0xD8 {
		vFail("hdr/soi")
		return h, false
	}
	p := 2
	seenSOF := false
	for {
		if p+4 > len(f) || f[p] != 0xFF {
			vFail("hdr/marker-expected")
			return h, false
		}
		m := f[p+1]
		n := vhBE16(f[p+2:])
		if n < 2 || p+2+n > len(f) {
			vFail("hdr/segment-length")
			return h, false
		}
		seg := f[p+4 : p+2+n]
		switch m {
		case 0xDB:
			for i := 0; i < len(seg); {
				if seg[i] > 1 || i+65 > len(seg) {
					vFail("hdr/dqt-format")
					return h, false
				}
				id := int(seg[i])
				for z := 0; z < 64; z++ {
					h.q[id][vhZigzag[z]] = int32(seg[i+1+z])
				}
				h.nq++
				i += 65
			}
		case 0xC0:
			if len(seg) < 6 {
				vFail("hdr/sof-format")
				return h, false
			}
			vCheck(seg[0] == 8, "hdr/precision")
			h.height, h.width, h.ncomp = vhBE16(seg[1:]), vhBE16(seg[3:]), int(seg[5])
			if (h.ncomp != 1 && h.ncomp != 3) || len(seg) != 6+3*h.ncomp {
				vFail("hdr/sof-components")
				return h, false
			}
			for c := 0; c < h.ncomp; c++ {
				vCheck(int(seg[6+3*c]) == c+1, "hdr/component-id")
				h.samp[c], h.tq[c] = seg[7+3*c], seg[8+3*c]
			}
			seenSOF = true
		case 0xC4:
			for i := 0; i < len(seg); {
				t, tcth, next := vhParseDHTTable(seg, i)
				if tcth&0xEE != 0 {
					vFail("hdr/dht-id")
					return h, false
				}
				h.huff[2*int(tcth&1)+int(tcth>>4)] = t
				i = next
			}
		case 0xDA:
			vCheck(seenSOF, "hdr/sos-before-sof")
			if len(seg) != 1+2*h.ncomp+3 || int(seg[0]) != h.ncomp {
				vFail("hdr/sos-format")
				return h, false
			}
			for c := 0; c < h.ncomp; c++ {
				vCheck(int(seg[1+2*c]) == c+1, "hdr/sos-component")
				want := byte(0x00)
				if c > 0 {
					want = 0x11
				}
				vCheck(seg[2+2*c] == want, "hdr/sos-table-selectors")
			}
			vCheck(seg[len(seg)-3] == 0 && seg[len(seg)-2] == 63 && seg[len(seg)-1] == 0, "hdr/sos-spectral")
			h.sos = p + 2 + n
			return h, true
		default:
			vFail("hdr/unexpected-marker")
			return h, false
		}
		p += 2 + n
	}
}

func vhColorType(i int) ColorType {
	switch i {
	case 1:
		return ColorTypeYCbCr444
	case 2:
		return ColorTypeYCbCr420
	}
	return ColorTypeGray
}

// vhPattern returns the zig-zag positions that carry symbolic AC values.
func vhPattern(i int) []int {
	switch i {
	case 1:
		return []int{1}
	case 2:
		return []int{1, 2}
	case 3:
		return []int{16}
	case 4:
		return []int{17}
	case 5:
		return []int{18}
	case 6:
		return []int{40}
	case 7:
		return []int{63}
	case 8:
		return []int{2, 62}
	case 9:
		return []int{33, 34}
	}
	return nil
}

func vhCoef(name string, dc bool) int16 {
	v := vI16(name)
	if dc {
		vAssume(vAnd(v >= -1024, v <= 1023))
	} else {
		vAssume(vAnd(v >= -1023, v <= 1023))
	}
	return v
}

// VH_C18_Blocks: Reset, then exactly the required number of AddN calls with
// sparse symbolic blocks, then one call too many; everything written is
// decoded by the reference reader.
func VH_C18_Blocks() {
	ct := vhColorType(vParam("CT"))
	nb := int(ct)
	mw, mh := ct.MCUDimensions()
	units := vParam("UNITS")
	width, height := mw*units-vParam("CROP"), mh
	var opts *EncoderOptions
	var qf Array2QuantizationFactors
	switch vParam("QUANT") {
	case 1:
		for i := range qf[0] {
			qf[0][i], qf[1][i] = 1, 255
		}
		opts = &EncoderOptions{QuantizationFactors: &qf}
	case 2:
		qf.SetToStandardValues(97)
		opts = &EncoderOptions{QuantizationFactors: &qf}
	}
	var e Encoder
	rec := &vhRec{}
	vCheck(e.Reset(rec, ct, width, height, opts) == nil, "reset/error")
	pat := vhPattern(vParam("PATTERN"))
	symBlock := vParam("SYMBLOCK") // which block of each unit carries symbolic ACs
	var sent [][64]int16
	for u := 0; u < units; u++ {
		var blocks [6]BlockI16
		for b := 0; b < nb; b++ {
			blocks[b][0] = vhCoef("dc", true)
			if b == symBlock%nb {
				for _, z := range pat {
					blocks[b][vhZigzag[z]] = vhCoef("ac", false)
				}
			}
			sent = append(sent, [64]int16(blocks[b]))
		}
		var err error
		switch nb {
		case 1:
			a := Array1BlockI16{blocks[0]}
			err = e.Add1(rec, &a)
		case 3:
			a := Array3BlockI16{blocks[0], blocks[1], blocks[2]}
			err = e.Add3(rec, &a)
		case 6:
			a := Array6BlockI16(blocks)
			err = e.Add6(rec, &a)
		}
		vCheck(err == nil, "addn/error")
	}
	n0 := len(rec.all)
	// one unit too many, then the error is sticky
	{
		var a1 Array1BlockI16
		var a3 Array3BlockI16
		var a6 Array6BlockI16
		var err, err2 error
		switch nb {
		case 1:
			err = e.Add1(rec, &a1)
			err2 = e.Add1(rec, &a1)
		case 3:
			err = e.Add3(rec, &a3)
			err2 = e.Add3(rec, &a3)
		case 6:
			err = e.Add6(rec, &a6)
			err2 = e.Add6(rec, &a6)
		}
		vCheck(err == ErrTooManyAddNCalls, "addn/too-many-rejected")
		vCheck(err2 == ErrPreviouslyReturnedError, "addn/error-is-sticky")
		vCheck(len(rec.all) == n0, "addn/nothing-written-after-error")
	}

	h, ok := vhParseHeader(rec.all)
	if !ok {
		return
	}
	vCheck(h.width == width && h.height == height, "hdr/dimensions")
	vCheck(h.ncomp == 1 && nb == 1 || h.ncomp == 3 && nb != 1, "hdr/components")
	wantSamp := byte(0x11)
	if ct == ColorTypeYCbCr420 {
		wantSamp = 0x22
	}
	vCheck(h.samp[0] == wantSamp, "hdr/luma-sampling")
	if h.ncomp == 3 {
		vCheck(h.samp[1] == 0x11 && h.samp[2] == 0x11, "hdr/chroma-sampling")
		vCheck(h.tq[0] == 0 && h.tq[1] == 1 && h.tq[2] == 1, "hdr/quant-selectors")
		vCheck(h.nq == 2, "hdr/quant-table-count")
	} else {
		vCheck(h.tq[0] == 0, "hdr/quant-selectors")
	}
	// the quantisation tables declared are the ones in force
	var want Array2QuantizationFactors
	if opts == nil {
		want.SetToStandardValues(DefaultQuality)
	} else {
		want = qf
	}
	for t := 0; t < h.nq; t++ {
		for i := 0; i < 64; i++ {
			vCheck(h.q[t][i] == int32(want[t][i]), "hdr/quant-values")
		}
	}

	// entropy-coded segment: everything up to the EOI marker
	f := rec.all
	if len(f) < h.sos+2 || f[len(f)-2] != 0xFF || f[len(f)-1] != 0xD9 {
		vFail("eoi/missing")
		return
	}
	br := &vhBits{data: f[h.sos : len(f)-2]}
	var prev [3]int32
	bi := 0
	for u := 0; u < units; u++ {
		for b := 0; b < nb; b++ {
			comp := 0
			if nb == 3 {
				comp = b
			} else if nb == 6 && b >= 4 {
				comp = b - 3
			}
			tsel := 0
			if comp > 0 {
				tsel = 1
			}
			got, ok := br.decodeBlock(&h.huff[2*tsel], &h.huff[2*tsel+1], &prev[comp])
			if !ok {
				vFail("scan/undecodable")
				return
			}
			for i := 0; i < 64; i++ {
				vCheck(got[i] == vhRound(int32(sent[bi][i]), int32(want[tsel][i])), "scan/coefficient")
			}
			bi++
		}
	}
	// padding: the remaining bits of the last byte are ones and nothing else follows
	for br.n > 0 {
		vCheck(br.bit() == 1, "scan/padding-bits")
	}
	vCheck(br.pos == len(br.data), "scan/trailing-bytes")
	vReach("blocks/done")
}

// VH_C18_Misuse: wrong AddN for the colour type, nil block, invalid block,
// bad Reset arguments: an error, nothing written, and the error is sticky.
func VH_C18_Misuse() {
	var e Encoder
	rec := &vhRec{}
	w, h := vInt("w"), vInt("h")
	ctv := vU8("ct")
	ct := ColorType(ctv)
	okArgs := vAnd(vAnd(1 <= w, w <= 0xFFFF), vAnd(1 <= h, h <= 0xFFFF))
	okCT := vOr(ctv == 1, vOr(ctv == 3, ctv == 6))
	err := e.Reset(rec, ct, w, h, nil)
	vCheck((err == nil) == vAnd(okArgs, okCT), "reset/accepts-exactly-valid-arguments")
	if err != nil {
		vCheck(rec.writes == 0, "reset/nothing-written-on-error")
		var a1 Array1BlockI16
		vCheck(e.Add1(rec, &a1) == ErrPreviouslyReturnedError, "reset/error-is-sticky")
		vReach("misuse/bad-reset")
		return
	}
	n0 := len(rec.all)
	var a1 Array1BlockI16
	var a3 Array3BlockI16
	which := vU8("which")
	vAssume(which <= 3)
	switch vConc(int(which)) {
	case 0: // wrong N
		if ct == ColorTypeGray {
			err = e.Add3(rec, &a3)
		} else {
			err = e.Add1(rec, &a1)
		}
		vCheck(err == ErrBadAddNForColorType, "misuse/wrong-n")
	case 1: // nil blocks
		switch ct {
		case ColorTypeGray:
			err = e.Add1(rec, nil)
		case ColorTypeYCbCr444:
			err = e.Add3(rec, nil)
		default:
			err = e.Add6(rec, nil)
		}
		vCheck(err == ErrBadArgument, "misuse/nil-blocks")
	case 2: // out-of-range coefficient
		v := vI16("v")
		pos := vU8("pos")
		vAssume(pos < 64)
		p := vConc(int(pos))
		if p == 0 {
			vAssume(vOr(v < -1024, v > 1023))
		} else {
			vAssume(vOr(v < -1023, v > 1023))
		}
		a1[0][p], a3[1][p] = v, v
		var a6 Array6BlockI16
		a6[5][p] = v
		switch ct {
		case ColorTypeGray:
			err = e.Add1(rec, &a1)
		case ColorTypeYCbCr444:
			err = e.Add3(rec, &a3)
		default:
			err = e.Add6(rec, &a6)
		}
		vCheck(err == ErrInvalidBlockI16, "misuse/invalid-block")
	case 3: // nil encoder
		var ne *Encoder
		vCheck(ne.Add1(rec, &a1) == ErrNilReceiver, "misuse/nil-receiver")
		vCheck(ne.Reset(rec, ct, w, h, nil) == ErrNilReceiver, "misuse/nil-receiver")
		vReach("misuse/done")
		return
	}
	vCheck(len(rec.all) == n0, "misuse/nothing-written")
	var err2 error
	switch ct {
	case ColorTypeGray:
		err2 = e.Add1(rec, &a1)
	case ColorTypeYCbCr444:
		err2 = e.Add3(rec, &a3)
	default:
		var a6 Array6BlockI16
		err2 = e.Add6(rec, &a6)
	}
	vCheck(err2 == ErrPreviouslyReturnedError, "misuse/error-is-sticky")
	vReach("misuse/done")
}

// VH_C18_Reuse: an Encoder abandoned in the middle of an image (too few AddN calls, optionally
// after an AddN error: Reset is the documented way to recover) and then Reset for another image
// writes exactly the bytes a fresh Encoder writes for that image. The abandoned image's DC
// coefficient is symbolic, so every number of pending bits in the accumulator occurs.
func VH_C18_Reuse() {
	ct := ColorTypeGray
	var used, fresh Encoder
	first := &vhRec{}
	vCheck(used.Reset(first, ct, 16, 8, nil) == nil, "reuse/reset-abandoned-image")
	var a Array1BlockI16
	a[0][0] = vhCoef("dc", true)
	vCheck(used.Add1(first, &a) == nil, "reuse/add-abandoned-image")
	if vBool("then-an-error") {
		var bad Array1BlockI16
		bad[0][5] = 2000
		vCheck(used.Add1(first, &bad) == ErrInvalidBlockI16, "reuse/invalid-block-rejected")
	}
	var b Array1BlockI16
	b[0][0], b[0][1], b[0][8] = 37, -3, 1 // the second image is fixed; what the first one left behind is not
	outU, outF := &vhRec{}, &vhRec{}
	vCheck(used.Reset(outU, ct, 8, 8, nil) == nil, "reuse/reset-after-abandoned-image")
	vCheck(fresh.Reset(outF, ct, 8, 8, nil) == nil, "reuse/reset-fresh")
	vCheck(used.Add1(outU, &b) == nil, "reuse/add-reused")
	vCheck(fresh.Add1(outF, &b) == nil, "reuse/add-fresh")
	vCheck(len(outU.all) == len(outF.all), "reuse/same-length-as-a-fresh-encoder")
	if len(outU.all) == len(outF.all) {
		same := true
		for i := range outU.all {
			same = vAnd(same, outU.all[i] == outF.all[i])
		}
		vCheck(same, "reuse/same-bytes-as-a-fresh-encoder")
	}
	vReach("reuse/done")
}
