package uncompng

// C19 harnesses. The public entry point is Encoder.Encode; the PNG walker
// below is the oracle (chunk framing, CRCs, zlib stored blocks, Adler-32,
// IEND, decoded scanlines == input samples).

type vhRec struct {
	all    []byte
	writes int
	sizes  []int
}

func (r *vhRec) Write(p []byte) (int, error) {
	r.all = append(r.all, p...)
	r.writes++
	r.sizes = append(r.sizes, len(p))
	return len(p), nil
}

func vhBE32(b []byte) uint32 {
	return uint32(b[0])<<24 | uint32(b[1])<<16 | uint32(b[2])<<8 | uint32(b[3])
}

// vhCRC is the CRC-32 of a chunk's type+payload. Symbolically crc32IEEE is
// replaced (Config.Replace) by an uninterpreted function of the bytes, on the
// encoder side and here alike; its agreement with the bitwise definition is
// the subject of VH_C19_CRCKernel.
func vhCRC(b []byte) uint32 { return crc32IEEE(b) }

func vhStubCRC(b []byte) uint32 { return vUF32("crc32", b) }

// vhAdlerRef advances an Adler-32 state (b<<16 | a) over data: reference
// definition natively, the same uninterpreted function as the stubbed
// updateAdler32 symbolically.
func vhAdlerRef(state uint32, data []byte) uint32 {
	a, b := state&0xFFFF, state>>16
	for _, v := range data {
		a = (a + uint32(v)) % 65521
		b = (b + a) % 65521
	}
	return b<<16 | a
}

func vhStubAdlerRef(state uint32, data []byte) uint32 {
	arg := make([]byte, 0, 4+len(data))
	arg = append(arg, byte(state>>24), byte(state>>16), byte(state>>8), byte(state))
	arg = append(arg, data...)
	return vUF32("adler", arg)
}

func vhStubUpdateAdler32(e *Encoder, ei int, ej int) {
	arg := make([]byte, 0, 4+ej-ei)
	arg = append(arg, e.buf[0xFFFC:0x10000]...)
	arg = append(arg, e.buf[ei:ej]...)
	n := vUF32("adler", arg)
	e.buf[0xFFFC] = byte(n >> 24)
	e.buf[0xFFFD] = byte(n >> 16)
	e.buf[0xFFFE] = byte(n >> 8)
	e.buf[0xFFFF] = byte(n >> 0)
}

func vhBytesPerPixel(depth Depth, ct ColorType) (in int, out int) {
	in, out = 1, 1
	switch ct {
	case ColorTypeRGBX:
		in, out = 4, 3
	case ColorTypeNRGBA:
		in, out = 4, 4
	}
	if depth == Depth16 {
		in, out = 2*in, 2*out
	}
	return
}

// vhWalk validates the file structure and returns the concatenated stored-block payloads.
func vhWalk(f []byte, width, height int, depth Depth, ct ColorType) []byte {
	sig := "\x89PNG\r\n\x1a\n"
	vCheck(len(f) >= 8+25+12+12, "png/min-size")
	if len(f) < 57 {
		return nil
	}
	for i := 0; i < 8; i++ {
		vCheck(f[i] == sig[i], "png/signature")
	}
	p := 8
	// IHDR
	vCheck(vhBE32(f[p:]) == 13, "ihdr/len")
	vCheck(string(f[p+4:p+8]) == "IHDR", "ihdr/type")
	vCheck(vhBE32(f[p+8:]) == uint32(width), "ihdr/width")
	vCheck(vhBE32(f[p+12:]) == uint32(height), "ihdr/height")
	vCheck(f[p+16] == byte(depth), "ihdr/depth")
	wantCT := byte(0)
	switch ct {
	case ColorTypeRGBX:
		wantCT = 2
	case ColorTypeNRGBA:
		wantCT = 6
	}
	vCheck(f[p+17] == wantCT, "ihdr/colortype")
	vCheck(f[p+18] == 0, "ihdr/compression")
	vCheck(f[p+19] == 0, "ihdr/filter")
	vCheck(f[p+20] == 0, "ihdr/interlace")
	vCheck(vhBE32(f[p+21:]) == vhCRC(f[p+4:p+21]), "ihdr/crc")
	p += 25

	var z []byte // concatenated IDAT payloads
	nIDAT := 0
	sawIEND := false
	for p < len(f) {
		if len(f)-p < 12 {
			vFail("chunk/truncated")
			return nil
		}
		n := int(vhBE32(f[p:]))
		if n > len(f)-p-12 {
			vFail("chunk/length-overruns-file")
			return nil
		}
		typ := string(f[p+4 : p+8])
		vCheck(vhBE32(f[p+8+n:]) == vhCRC(f[p+4:p+8+n]), "chunk/crc")
		if typ == "IDAT" {
			vCheck(!sawIEND, "chunk/idat-after-iend")
			z = append(z, f[p+8:p+8+n]...)
			nIDAT++
		} else if typ == "IEND" {
			vCheck(n == 0, "iend/len")
			sawIEND = true
		} else {
			vFail("chunk/unknown-type")
		}
		p += 12 + n
	}
	vCheck(sawIEND, "iend/missing")
	vCheck(p == len(f), "file/trailing-bytes")
	vCheck(nIDAT >= 1, "idat/missing")

	// zlib stream
	if len(z) < 2+5+4 {
		vFail("zlib/too-short")
		return nil
	}
	vCheck(z[0] == 0x78, "zlib/cmf")
	vCheck((uint32(z[0])<<8|uint32(z[1]))%31 == 0, "zlib/fcheck")
	vCheck(z[1]&0x20 == 0, "zlib/fdict")
	q := 2
	var out []byte
	adler := uint32(1)
	for {
		if len(z)-q < 5 {
			vFail("deflate/truncated-header")
			return nil
		}
		hdr := z[q]
		vCheck(hdr == 0 || hdr == 1, "deflate/stored-block-header")
		ln := int(z[q+1]) | int(z[q+2])<<8
		nln := int(z[q+3]) | int(z[q+4])<<8
		vCheck(ln^nln == 0xFFFF, "deflate/nlen")
		q += 5
		if ln > len(z)-q {
			vFail("deflate/len-overruns")
			return nil
		}
		out = append(out, z[q:q+ln]...)
		adler = vhAdlerRef(adler, z[q:q+ln])
		q += ln
		if hdr == 1 {
			break
		}
	}
	vCheck(len(z)-q == 4, "zlib/trailer-size")
	if len(z)-q == 4 {
		vCheck(vhBE32(z[q:]) == adler, "zlib/adler32")
	}
	return out
}

func vhEncodeAndCheck(e *Encoder, pix []byte, width, height, stride int, depth Depth, ct ColorType, tag string) {
	rec := &vhRec{}
	err := e.Encode(rec, pix, width, height, stride, depth, ct)
	vCheck(err == nil, tag+"encode/error")
	if err != nil {
		return
	}
	out := vhWalk(rec.all, width, height, depth, ct)
	if out == nil {
		return
	}
	in, outBPP := vhBytesPerPixel(depth, ct)
	rowBytes := 1 + outBPP*width
	vCheck(len(out) == rowBytes*height, tag+"pixels/decoded-size")
	if len(out) != rowBytes*height {
		return
	}
	for y := 0; y < height; y++ {
		vCheck(out[y*rowBytes] == 0, tag+"pixels/filter-byte")
		for x := 0; x < width; x++ {
			for c := 0; c < outBPP; c++ {
				vCheck(out[y*rowBytes+1+x*outBPP+c] == pix[y*stride+x*in+c], tag+"pixels/sample")
			}
		}
	}
	// every write is at most the buffer size and the last one ends the file
	for _, s := range rec.sizes {
		vCheck(s <= 65536, tag+"write/size")
	}
}

func vhType(i int) (Depth, ColorType) {
	d := Depth8
	if i >= 3 {
		d = Depth16
	}
	return d, ColorType(1 + i%3)
}

// VH_C19_Small: symbolic width, height in [1,MAXWH], stride slack in [0,2], all
// six depth x colour types (TYPE param), symbolic pixels; then a second image
// on the same Encoder.
func VH_C19_Small() {
	maxwh := vParam("MAXWH")
	depth, ct := vhType(vParam("TYPE"))
	var e Encoder
	for round := 0; round < 2; round++ {
		w := vInt("w")
		h := vInt("h")
		slack := vInt("slack")
		vAssume(vAnd(1 <= w, w <= maxwh))
		vAssume(vAnd(1 <= h, h <= maxwh))
		vAssume(vAnd(0 <= slack, slack <= 2))
		w, h, slack = vConc(w), vConc(h), vConc(slack)
		in, _ := vhBytesPerPixel(depth, ct)
		stride := w*in + slack
		pix := vBytes("pix", stride*h)
		tag := "first/"
		if round == 1 {
			tag = "reuse/"
			depth, ct = vhType((vParam("TYPE") + 2) % 6)
			in, _ = vhBytesPerPixel(depth, ct)
			stride = w*in + slack
			pix = vBytes("pix2", stride*h)
		}
		vhEncodeAndCheck(&e, pix, w, h, stride, depth, ct, tag)
	}
	vReach("small/done")
}

// VH_C19_Boundary: concrete sizes chosen by the driver so that rows and
// pixels straddle the encoder's 64 KiB buffer; every pixel byte symbolic.
func VH_C19_Boundary() {
	depth, ct := vhType(vParam("TYPE"))
	w, h, slack := vParam("W"), vParam("H"), vParam("SLACK")
	in, _ := vhBytesPerPixel(depth, ct)
	stride := w*in + slack
	pix := vBytes("pix", stride*h)
	var e Encoder
	if vParam("DIRTY") == 1 {
		// a previous image leaves the buffer and the "first chunk" marker in another state
		small := vBytes("prev", 8)
		vhEncodeAndCheck(&e, small, 1, 1, 8, Depth16, ColorTypeNRGBA, "prev/")
	}
	vhEncodeAndCheck(&e, pix, w, h, stride, depth, ct, "boundary/")
	if vParam("DIRTY") == 1 {
		// reuse after an image that needed several chunks: the start of the buffer was reused for
		// pixel data, so the next image depends on init restoring every header byte
		next := vBytes("next", 6)
		vhEncodeAndCheck(&e, next, 2, 2, 3, Depth8, ColorTypeGray, "next/")
	}
	vReach("boundary/done")
}

// VH_C19_Args: argument validation never panics.
func VH_C19_Args() {
	var e Encoder
	rec := &vhRec{}
	w, h := vInt("w"), vInt("h")
	d, c := vU8("depth"), vU8("ct")
	vAssume(vOr(vOr(w < 0, h < 0), vOr(w > 0xFFFFFF, h > 0xFFFFFF)))
	err := e.Encode(rec, nil, w, h, 0, Depth(d), ColorType(c))
	vCheck(err != nil, "args/rejected")
	vCheck(rec.writes == 0, "args/nothing-written")
	vReach("args/done")
}

// VH_C19_Header: Encoder.init for every accepted width and height (1 .. 0xFFFFFF, symbolic) and
// each depth / colour type, over arbitrary prior contents of the first 0x30 buffer bytes (an
// Encoder that has been used before): signature, IHDR length/type, big-endian width and height,
// depth, colour-type code, three zero method bytes, CRC over type+payload.
func VH_C19_Header() {
	depth, ct := vhType(vParam("TYPE"))
	var e Encoder
	g := vBytes("garbage", 0x30)
	for i := range g {
		e.buf[i] = g[i]
	}
	w, h := vInt("w"), vInt("h")
	vAssume(vAnd(1 <= w, w <= 0xFFFFFF))
	vAssume(vAnd(1 <= h, h <= 0xFFFFFF))
	e.init(w, h, depth, ct)
	sig := []byte{0x89, 'P', 'N', 'G', 0x0D, 0x0A, 0x1A, 0x0A, 0, 0, 0, 0x0D, 'I', 'H', 'D', 'R'}
	for i := range sig {
		vCheck(e.buf[i] == sig[i], "header/signature-and-ihdr-framing")
	}
	vCheck(vhBE32(e.buf[0x10:0x14]) == uint32(w), "header/width")
	vCheck(vhBE32(e.buf[0x14:0x18]) == uint32(h), "header/height")
	vCheck(e.buf[0x18] == byte(depth), "header/depth")
	want := byte(0)
	switch ct {
	case ColorTypeRGBX:
		want = 2
	case ColorTypeNRGBA:
		want = 6
	}
	vCheck(e.buf[0x19] == want, "header/colour-type")
	vCheck(vAnd(e.buf[0x1A] == 0, vAnd(e.buf[0x1B] == 0, e.buf[0x1C] == 0)), "header/methods-zero")
	vCheck(vhBE32(e.buf[0x1D:0x21]) == vhCRC(e.buf[0x0C:0x1D]), "header/crc")
	vReach("header/done")
}
