package uncompng

// Kernel lemmas (auxiliary: they name unexported functions).

func vhCRCBitwise(b []byte) uint32 {
	crc := uint32(0xFFFFFFFF)
	for _, v := range b {
		crc ^= uint32(v)
		for k := 0; k < 8; k++ {
			crc = (crc >> 1) ^ (0xEDB88320 & -(crc & 1))
		}
	}
	return ^crc
}

// VH_C19_CRCKernel: crc32IEEE equals the bitwise CRC-32 for every input of N bytes.
func VH_C19_CRCKernel() {
	n := vParam("N")
	b := vBytes("b", n)
	vCheck(crc32IEEE(b) == vhCRCBitwise(b), "crc/equals-bitwise")
	vReach("crc/done")
}

// VH_C19_CRCTable: every table entry is the bitwise CRC step of its index (concrete evaluation).
func VH_C19_CRCTable() {
	for i := 0; i < 256; i++ {
		crc := uint32(i)
		for k := 0; k < 8; k++ {
			crc = (crc >> 1) ^ (0xEDB88320 & -(crc & 1))
		}
		vCheck(crc32IEEETable[i] == crc, "crc/table")
	}
	vReach("crctable/done")
}

// VH_C19_AdlerKernel: updateAdler32 from an arbitrary valid state over N
// symbolic bytes equals the reference definition.
func VH_C19_AdlerKernel() {
	n := vParam("N")
	var e Encoder
	a0, b0 := vU16("a0"), vU16("b0")
	vAssume(vAnd(a0 < 65521, b0 < 65521))
	e.buf[0xFFFC] = byte(b0 >> 8)
	e.buf[0xFFFD] = byte(b0)
	e.buf[0xFFFE] = byte(a0 >> 8)
	e.buf[0xFFFF] = byte(a0)
	data := vBytes("d", n)
	copy(e.buf[100:], data)
	e.updateAdler32(100, 100+n)
	got := vhBE32(e.buf[0xFFFC:])
	gotA, gotB := got&0xFFFF, got>>16
	// exact sums (no wrap for small n): a = a0 + sum d_i ; b = b0 + n*a0 + sum (n-i)*d_i
	sumA, sumB := uint32(a0), uint32(b0)
	for _, v := range data {
		sumA += uint32(v)
		sumB += sumA
	}
	const m = 65521
	vCheck(vAnd(gotA < m, gotB < m), "adler/reduced")
	okA, okB := false, false
	qmax := uint32((65520+n*65520+255*n*(n+1)/2)/m + 1)
	for q := uint32(0); q <= qmax; q++ {
		okA = vOr(okA, sumA == gotA+q*m)
		okB = vOr(okB, sumB == gotB+q*m)
	}
	vCheck(okA, "adler/a-congruent")
	vCheck(okB, "adler/b-congruent")
	vReach("adler/done")
}

// VH_C19_AdlerBlock: over N symbolic bytes (more than one deferred-modulo block) from an
// arbitrary valid state, no unsigned addition inside updateAdler32 wraps around: the modulo may be
// deferred only as long as the 32-bit sums cannot overflow. Natively (replay) the result is
// compared with the byte-by-byte definition.
func VH_C19_AdlerBlock() {
	n := vParam("N")
	var e Encoder
	a0, b0 := vU16("a0"), vU16("b0")
	vAssume(vAnd(a0 < 65521, b0 < 65521))
	e.buf[0xFFFC] = byte(b0 >> 8)
	e.buf[0xFFFD] = byte(b0)
	e.buf[0xFFFE] = byte(a0 >> 8)
	e.buf[0xFFFF] = byte(a0)
	data := vBytes("d", n)
	copy(e.buf[100:], data)
	vWrapBegin("adler/deferred-sums-do-not-wrap")
	e.updateAdler32(100, 100+n)
	vWrapEnd()
	if vNative() {
		a, b := uint64(a0), uint64(b0)
		for _, v := range data {
			a = (a + uint64(v)) % 65521
			b = (b + a) % 65521
		}
		vCheck(vhBE32(e.buf[0xFFFC:]) == uint32(b<<16|a), "adler/deferred-sums-do-not-wrap")
	}
	vReach("adlerblock/done")
}
