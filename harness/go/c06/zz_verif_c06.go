package interval

// C06 harnesses: public IntRange API only. Executed symbolically by gossa with
// the math/big model; compiled natively (with prelude_native) for replay.

import "math/big"

const (
	vhAdd = iota
	vhSub
	vhMul
	vhLsh
	vhQuo
	vhRsh
	vhAnd
	vhOr
	vhUnite
	vhIntersect
)

func vhRange(name string, k int) IntRange {
	var r IntRange
	if !vBool(name + ".lo.nil") {
		r[0] = vBig(name+".lo", k)
	}
	if !vBool(name + ".hi.nil") {
		r[1] = vBig(name+".hi", k)
	}
	return r
}

func vhIn(x IntRange, v int32) bool {
	c := true
	if x[0] != nil {
		c = vAnd(c, vBigVal32(x[0]) <= v)
	}
	if x[1] != nil {
		c = vAnd(c, v <= vBigVal32(x[1]))
	}
	return c
}

func vhEmpty(x IntRange) bool {
	if x[0] == nil {
		return false
	}
	if x[1] == nil {
		return false
	}
	return vBigVal32(x[0]) > vBigVal32(x[1])
}

// vhHasBelow: x is non-empty and contains a value < lim.
func vhHasNeg(x IntRange) bool {
	c := vNot(vhEmpty(x))
	if x[0] != nil {
		c = vAnd(c, vBigVal32(x[0]) < 0)
	}
	return c
}

func vhHasZero(x IntRange) bool {
	return vAnd(vNot(vhEmpty(x)), vhIn(x, 0))
}

func vhSmall(v int32, k int) bool {
	lim := int32(1) << uint(k)
	return vAnd(-lim < v, v < lim)
}

func vhRef(op int, a, b int32) int32 {
	switch op {
	case vhAdd:
		return a + b
	case vhSub:
		return a - b
	case vhMul:
		return a * b
	case vhLsh:
		return a << uint32(b)
	case vhQuo:
		return a / b
	case vhRsh:
		return a >> uint32(b)
	case vhAnd:
		return a & b
	case vhOr:
		return a | b
	}
	panic("vhRef")
}

func vhApply(op int, x, y IntRange) (IntRange, bool) {
	switch op {
	case vhAdd:
		return x.TryAdd(y)
	case vhSub:
		return x.TrySub(y)
	case vhMul:
		return x.TryMul(y)
	case vhLsh:
		return x.TryLsh(y)
	case vhQuo:
		return x.TryQuo(y)
	case vhRsh:
		return x.TryRsh(y)
	case vhAnd:
		return x.TryAnd(y)
	case vhOr:
		return x.TryOr(y)
	case vhUnite:
		return x.TryUnite(y)
	case vhIntersect:
		return x.TryIntersect(y)
	}
	panic("vhApply")
}

// vhApplyPlain uses the non-Try twin where one exists.
func vhApplyPlain(op int, x, y IntRange) IntRange {
	switch op {
	case vhAdd:
		return x.Add(y)
	case vhSub:
		return x.Sub(y)
	case vhMul:
		return x.Mul(y)
	case vhAnd:
		return x.And(y)
	case vhOr:
		return x.Or(y)
	case vhUnite:
		return x.Unite(y)
	case vhIntersect:
		return x.Intersect(y)
	}
	z, _ := vhApply(op, x, y)
	return z
}

func vhVal(p *big.Int) int32 {
	if p == nil {
		return 0
	}
	return vBigVal32(p)
}

func vhSameRange(a, b IntRange, label string) {
	vCheck((a[0] == nil) == (b[0] == nil), label+"/lo-nil")
	vCheck((a[1] == nil) == (b[1] == nil), label+"/hi-nil")
	if a[0] != nil && b[0] != nil {
		vCheck(vBigVal32(a[0]) == vBigVal32(b[0]), label+"/lo")
	}
	if a[1] != nil && b[1] != nil {
		vCheck(vBigVal32(a[1]) == vBigVal32(b[1]), label+"/hi")
	}
}

func vhOp(op int) {
	k := vParam("K")
	s := vParam("S")
	x := vhRange("x", k)
	y := vhRange("y", k)
	isShift := op == vhLsh || op == vhRsh
	if isShift && y[1] != nil {
		vAssume(vBigVal32(y[1]) <= int32(s))
	}
	if isShift && y[0] != nil {
		vAssume(vBigVal32(y[0]) <= int32(s))
	}
	if vParam("STRADDLE") == 0 {
		vAssume(vNot(vAnd(vhIn(x, -1), vhIn(x, 0))))
		vAssume(vNot(vAnd(vhIn(y, -1), vhIn(y, 0))))
	}
	xv0, xv1, yv0, yv1 := vhVal(x[0]), vhVal(x[1]), vhVal(y[0]), vhVal(y[1])

	z, ok := vhApply(op, x, y)

	// (a) failure exactly when some pair is undefined
	switch op {
	case vhQuo:
		vCheck(ok == vNot(vAnd(vNot(vhEmpty(x)), vhHasZero(y))), "ok-iff-defined")
	case vhLsh, vhRsh:
		vCheck(ok == vNot(vAnd(vNot(vhEmpty(x)), vhHasNeg(y))), "ok-iff-defined")
	default:
		vCheck(ok, "ok-iff-defined")
	}
	// operands unmodified, no sharing with the operands
	vCheck(vhVal(x[0]) == xv0, "operand-unmodified")
	vCheck(vhVal(x[1]) == xv1, "operand-unmodified")
	vCheck(vhVal(y[0]) == yv0, "operand-unmodified")
	vCheck(vhVal(y[1]) == yv1, "operand-unmodified")
	for i := 0; i < 2; i++ {
		if z[i] != nil {
			vCheck(z[i] != x[0], "no-shared-storage")
			vCheck(z[i] != x[1], "no-shared-storage")
			vCheck(z[i] != y[0], "no-shared-storage")
			vCheck(z[i] != y[1], "no-shared-storage")
		}
	}
	if z[0] != nil && z[1] != nil {
		vCheck(z[0] != z[1], "no-shared-storage")
	}
	if !ok {
		vReach("not-ok")
		return
	}
	// (c) an empty operand gives an empty result
	if op != vhUnite {
		vCheck(vImplies(vOr(vhEmpty(x), vhEmpty(y)), vhEmpty(z)), "empty-in-empty-out")
	}
	// (b) containment
	xx := vI32("xx")
	yy := vI32("yy")
	vAssume(vhSmall(xx, k))
	vAssume(vhSmall(yy, k))
	switch op {
	case vhUnite:
		vCheck(vImplies(vhIn(x, xx), vhIn(z, xx)), "contains")
		vCheck(vImplies(vhIn(y, yy), vhIn(z, yy)), "contains")
		vCheck(vImplies(vAnd(vhEmpty(x), vhEmpty(y)), vhEmpty(z)), "empty-in-empty-out")
	case vhIntersect:
		vCheck(vhIn(z, xx) == vAnd(vhIn(x, xx), vhIn(y, xx)), "contains-exactly")
	default:
		vAssume(vhIn(x, xx))
		vAssume(vhIn(y, yy))
		if isShift {
			vAssume(yy <= int32(s))
		}
		vCheck(vhIn(z, vhRef(op, xx, yy)), "contains")
	}
	vReach("ok")

	// storage independence, observed through the API: scribbling over the
	// result must not change what the same call returns next time.
	z0, z1 := vhVal(z[0]), vhVal(z[1])
	if z[0] != nil {
		z[0].SetInt64(12345)
	}
	if z[1] != nil {
		z[1].SetInt64(-12345)
	}
	vCheck(vhVal(x[0]) == xv0, "result-mutation-leaks")
	vCheck(vhVal(x[1]) == xv1, "result-mutation-leaks")
	vCheck(vhVal(y[0]) == yv0, "result-mutation-leaks")
	vCheck(vhVal(y[1]) == yv1, "result-mutation-leaks")
	z2 := vhApplyPlain(op, x, y)
	vCheck((z2[0] == nil) == (z[0] == nil), "result-mutation-leaks")
	vCheck((z2[1] == nil) == (z[1] == nil), "result-mutation-leaks")
	if z2[0] != nil {
		vCheck(vBigVal32(z2[0]) == z0, "result-mutation-leaks")
	}
	if z2[1] != nil {
		vCheck(vBigVal32(z2[1]) == z1, "result-mutation-leaks")
	}
}

func VH_C06_Add()       { vhOp(vhAdd) }
func VH_C06_Sub()       { vhOp(vhSub) }
func VH_C06_Mul()       { vhOp(vhMul) }
func VH_C06_Lsh()       { vhOp(vhLsh) }
func VH_C06_Quo()       { vhOp(vhQuo) }
func VH_C06_Rsh()       { vhOp(vhRsh) }
func VH_C06_And()       { vhOp(vhAnd) }
func VH_C06_Or()        { vhOp(vhOr) }
func VH_C06_Unite()     { vhOp(vhUnite) }
func VH_C06_Intersect() { vhOp(vhIntersect) }

// Tightness: all four bounds finite, X and Y non-empty, values in [-T, T)
// (shift amounts in [0, TS]); the inner "exists a pair attaining the bound"
// is expanded over all constant pairs.
func vhTight(op int) {
	t := int32(vParam("T"))
	ts := int32(vParam("TS"))
	isShift := op == vhLsh || op == vhRsh
	tb := vParam("TB")
	bx0, bx1, by0, by1 := vBig("x0", tb), vBig("x1", tb), vBig("y0", tb), vBig("y1", tb)
	x0, x1, y0, y1 := vBigVal32(bx0), vBigVal32(bx1), vBigVal32(by0), vBigVal32(by1)
	vAssume(vAnd(-t <= x0, x1 < t))
	vAssume(x0 <= x1)
	ylo, yhi := -t, t
	if isShift {
		ylo, yhi = 0, ts+1
	}
	vAssume(vAnd(ylo <= y0, y1 < yhi))
	vAssume(y0 <= y1)
	if op == vhQuo {
		vAssume(vOr(y1 < 0, y0 > 0))
	}
	x := IntRange{bx0, bx1}
	y := IntRange{by0, by1}
	z, ok := vhApply(op, x, y)
	vCheck(ok, "tight/ok")
	if !ok {
		return
	}
	vCheck(z[0] != nil, "tight/finite")
	vCheck(z[1] != nil, "tight/finite")
	if z[0] == nil || z[1] == nil {
		return
	}
	zlo, zhi := vBigVal32(z[0]), vBigVal32(z[1])
	loHit, hiHit := false, false
	switch op {
	case vhUnite:
		loHit = vOr(zlo == x0, zlo == y0)
		hiHit = vOr(zhi == x1, zhi == y1)
		vCheck(vAnd(zlo <= x0, zlo <= y0), "tight/contains")
		vCheck(vAnd(zhi >= x1, zhi >= y1), "tight/contains")
	case vhIntersect:
		// exactness is already established by contains-exactly; tight = max/min
		mx := x0
		if y0 > x0 {
			mx = y0
		}
		mn := x1
		if y1 < x1 {
			mn = y1
		}
		if mx <= mn {
			loHit, hiHit = zlo == mx, zhi == mn
		} else {
			loHit, hiHit = zlo > zhi, zlo > zhi
		}
	default:
		for a := -t; a < t; a++ {
			inX := vAnd(x0 <= a, a <= x1)
			for b := ylo; b < yhi; b++ {
				if op == vhQuo && b == 0 {
					continue
				}
				in := vAnd(inX, vAnd(y0 <= b, b <= y1))
				r := vhRef(op, a, b)
				loHit = vOr(loHit, vAnd(in, zlo == r))
				hiHit = vOr(hiHit, vAnd(in, zhi == r))
			}
		}
	}
	vCheck(loHit, "tight/lower-bound-attained")
	vCheck(hiHit, "tight/upper-bound-attained")
	vReach("tight")
}

func VH_C06_Tight_Add()       { vhTight(vhAdd) }
func VH_C06_Tight_Sub()       { vhTight(vhSub) }
func VH_C06_Tight_Mul()       { vhTight(vhMul) }
func VH_C06_Tight_Lsh()       { vhTight(vhLsh) }
func VH_C06_Tight_Quo()       { vhTight(vhQuo) }
func VH_C06_Tight_Rsh()       { vhTight(vhRsh) }
func VH_C06_Tight_And()       { vhTight(vhAnd) }
func VH_C06_Tight_Or()        { vhTight(vhOr) }
func VH_C06_Tight_Unite()     { vhTight(vhUnite) }
func VH_C06_Tight_Intersect() { vhTight(vhIntersect) }
