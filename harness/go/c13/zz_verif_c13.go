package rac

import (
	"io"
)

// ---- the harness ----

type vhSetup struct {
	w         *Writer
	sink      *vhSink
	faults    *vhFaults
	resources [][]byte
}

// vhNewWriter builds a Writer from the harness parameters:
// MODE 0: DChunkSize = SIZE; MODE 1: CChunkSize = SIZE (+ frame). PAGE: CPageSize. ILA: index
// location (0 end, 1 start). TEMP: 1 plain temp file, 2 seekable temp file. RES: number of resources.
func vhNewWriter() *vhSetup {
	s := &vhSetup{faults: &vhFaults{}}
	s.sink = &vhSink{f: s.faults}
	for i := 0; i < vParam("RES"); i++ {
		s.resources = append(s.resources, []byte{0xA0 + byte(i), 0x5A, byte(i)})
	}
	w := &Writer{Writer: s.sink, CodecWriter: &vhCodecW{nres: len(s.resources)}, CPageSize: uint64(vParam("PAGE")), ResourcesData: s.resources}
	if vParam("MODE") == 0 {
		w.DChunkSize = uint64(vParam("SIZE"))
	} else {
		w.CChunkSize = uint64(vParam("SIZE") + vhFrame)
	}
	if vParam("ILA") == 1 {
		w.IndexLocation = IndexLocationAtStart
		if vParam("TEMP") == 2 {
			w.TempFile = &vhTempSeek{f: s.faults, data: []byte{0xEE, 0xEE}, pos: 2}
		} else {
			w.TempFile = &vhTemp{f: s.faults}
		}
	}
	s.w = w
	return s
}

// vhCheckFile: spec walker + real Reader on the produced file.
func vhCheckFile(file []byte, payload []byte, resources [][]byte) {
	res := vhWalkFile(file)
	vCheck(res.why == "", "file/passes-the-specification-walker")
	if res.why != "" {
		return
	}
	vCheck(res.dFileSize == int64(len(payload)), "file/DFileSize-is-the-payload-length")
	if vParam("ILA") == 1 {
		vCheck(res.rootOff == 0, "file/root-at-start-when-requested")
	} else {
		vCheck(res.rootOff+res.rootSize == int64(len(file)), "file/root-at-end-when-requested")
	}
	// reconstruct every leaf with the stub framing and compare with the payload
	for _, l := range res.leaves {
		vCheck(l.codec == vhCodec, "file/leaf-codec")
		if l.cHi-l.cLo < vhFrame {
			vFail("file/leaf-primary-range-holds-the-frame")
			return
		}
		n := int64(file[l.cLo])
		if l.cLo+vhFrame+n > l.cHi || n > l.dHi-l.dLo || l.dHi > int64(len(payload)) {
			vFail("file/leaf-frame-fits-its-ranges")
			return
		}
		for i := int64(0); i < l.dHi-l.dLo; i++ {
			if i < n {
				vCheck(file[l.cLo+vhFrame+i] == payload[l.dLo+i], "file/leaf-bytes-are-the-payload")
			} else {
				vCheck(payload[l.dLo+i] == 0, "file/implicit-zeroes-are-zero-in-the-payload")
			}
		}
		// resources named by the frame are reachable through the tags
		for k := 0; k < 2; k++ {
			want := int(file[l.cLo+1+int64(k)]) - 1
			lo, hi := l.sLo, l.sHi
			if k == 1 {
				lo, hi = l.tLo, l.tHi
			}
			if want < 0 {
				vCheck(lo == hi, "file/no-resource-range-when-none-used")
				continue
			}
			r := resources[want]
			if hi-lo < int64(len(r)) {
				vFail("file/resource-range-holds-the-resource")
				continue
			}
			for i := range r {
				vCheck(file[lo+int64(i)] == r[i], "file/resource-bytes")
			}
		}
	}
	if p := int64(vParam("PAGE")); p > 0 && vParam("ILA") == 1 {
		// the data section starts on a page boundary
		if len(res.leaves) > 0 {
			first := res.leaves[0].cLo
			for _, l := range res.leaves {
				if l.cLo < first {
					first = l.cLo
				}
			}
			_ = first
		}
	}

	rd := &Reader{ReadSeeker: &vhRS{data: file}, CompressedSize: int64(len(file)), CodecReaders: []CodecReader{&vhCodecR{resources: resources}}}
	got := make([]byte, 0, len(payload)+1)
	buf := make([]byte, len(payload)+2)
	for iter := 0; iter < len(payload)+3; iter++ {
		n, err := rd.Read(buf)
		got = append(got, buf[:n]...)
		if err == io.EOF {
			break
		}
		if err != nil {
			vFail("reader/error")
			return
		}
	}
	vCheck(len(got) == len(payload), "reader/length")
	if len(got) == len(payload) {
		for i := range payload {
			vCheck(got[i] == payload[i], "reader/bytes")
		}
	}
	vCheck(rd.Close() == nil, "reader/close")
}

// vhSplits returns the payload partition: up to WRITES Write calls at symbolic split points.
func vhSplits(n int) []int {
	k := vParam("WRITES")
	cuts := []int{0}
	prev := 0
	for i := 1; i < k; i++ {
		c := vInt("cut")
		vAssume(vAnd(c >= prev, c <= n))
		prev = vConc(c)
		cuts = append(cuts, prev)
	}
	return append(cuts, n)
}

// VH_C13_RoundTrip: every payload of N bytes, every partition into WRITES Write calls.
func VH_C13_RoundTrip() {
	n := vParam("N")
	payload := vBytes("p", n)
	s := vhNewWriter()
	cuts := vhSplits(n)
	for i := 0; i+1 < len(cuts); i++ {
		part := payload[cuts[i]:cuts[i+1]]
		k, err := s.w.Write(part)
		vCheck(err == nil, "writer/write-error")
		vCheck(k == len(part), "writer/write-count")
	}
	vCheck(s.w.Close() == nil, "writer/close-error")
	vCheck(s.w.Close() != nil || true, "writer/second-close")
	vhCheckFile(s.sink.data, payload, s.resources)
	vReach("rt/done")
}

// VH_C13_Fault: the FAIL'th I/O call on the underlying writer / temp file fails.
func VH_C13_Fault() {
	n := vParam("N")
	payload := vBytes("p", n)
	s := vhNewWriter()
	k := vInt("failat")
	vAssume(vAnd(k >= 1, k <= vParam("MAXFAIL")))
	s.faults.failAt = vConc(k)
	cuts := vhSplits(n)
	sawErr := false
	for i := 0; i+1 < len(cuts); i++ {
		part := payload[cuts[i]:cuts[i+1]]
		_, err := s.w.Write(part)
		if sawErr {
			vCheck(err != nil, "fault/error-stays-reported-by-write")
		}
		if s.faults.failed {
			vCheck(err != nil, "fault/failure-is-reported-by-write")
		}
		if err != nil {
			sawErr = true
		}
	}
	err := s.w.Close()
	if sawErr || s.faults.failed {
		vCheck(err != nil, "fault/failure-is-reported-by-close")
		vCheck(s.w.Close() != nil, "fault/error-stays-reported-by-close")
		vReach("fault/reported")
	} else {
		vCheck(err == nil, "fault/no-failure-no-error")
		if err == nil {
			vhCheckFile(s.sink.data, payload, s.resources)
		}
		vReach("fault/not-hit")
	}
}

// VH_C13_ManyChunks: the exported ChunkWriter with CHUNKS one-byte chunks (more than one branch
// node can hold), two shared resources and a symbolic resource choice for the chunks around
// the branch-node boundaries: the two-level index must pass the walker, and every leaf must
// reach exactly the resources its frame names.
func VH_C13_ManyChunks() {
	n := vParam("CHUNKS")
	faults := &vhFaults{}
	sink := &vhSink{f: faults}
	cw := &ChunkWriter{Writer: sink, CPageSize: uint64(vParam("PAGE"))}
	if vParam("ILA") == 1 {
		cw.IndexLocation = IndexLocationAtStart
		cw.TempFile = &vhTemp{f: faults}
	}
	resources := [][]byte{{0xA0, 0x5A, 0}, {0xA1, 0x5A, 1}}
	var ids [2]OptResource
	for i := range resources {
		id, err := cw.AddResource(resources[i])
		vCheck(err == nil, "many/add-resource-error")
		ids[i] = id
	}
	payload := make([]byte, n)
	for i := 0; i < n; i++ {
		payload[i] = byte(i%250) + 1
		s, t := -1, -1
		if i == 3 || (i >= 253 && i <= 255) {
			c := vInt("res2")
			vAssume(vAnd(c >= -1, c <= 1))
			s = vConc(c)
			if i == 254 {
				c := vInt("res3")
				vAssume(vAnd(c >= -1, c <= 1))
				t = vConc(c)
			}
		}
		var sec, ter OptResource
		if s >= 0 {
			sec = ids[s]
		}
		if t >= 0 {
			ter = ids[t]
		}
		primary := []byte{1, byte(s + 1), byte(t + 1), payload[i]}
		vCheck(cw.AddChunk(1, vhCodec, primary, sec, ter) == nil, "many/add-chunk-error")
	}
	vCheck(cw.Close() == nil, "many/close-error")
	res := vhWalkFile(sink.data)
	vCheck(res.why == "", "many/passes-the-specification-walker")
	if res.why == "" {
		vCheck(len(res.leaves) == n, "many/leaf-count")
		vCheck(res.nodes >= 3, "many/index-has-two-levels")
		vhCheckFile(sink.data, payload, resources)
	}
	vReach("many/done")
}
