package rac

import (
	"errors"
	"io"
)

// ---- stub codec: a length-framed store. frame = [n, secondary+1, tertiary+1, n data bytes] ----

const vhFrame = 3

type vhCodecW struct {
	nres int
}

func (c *vhCodecW) Close() error       { return nil }
func (c *vhCodecW) Clone() CodecWriter { return c }
func (c *vhCodecW) CanCut() bool       { return true }

func (c *vhCodecW) pick(name string) int {
	if c.nres == 0 {
		return NoResourceUsed
	}
	r := vInt(name)
	vAssume(vAnd(r >= -1, r < c.nres))
	return vConc(r)
}

func (c *vhCodecW) Compress(p []byte, q []byte, resourcesData [][]byte) (Codec, []byte, int, int, error) {
	n := len(p) + len(q)
	if n > 255 {
		vAssume(false)
	}
	s, t := c.pick("res2"), c.pick("res3")
	out := make([]byte, 0, n+vhFrame)
	out = append(out, byte(n), byte(s+1), byte(t+1))
	out = append(out, p...)
	out = append(out, q...)
	return vhCodec, out, s, t, nil
}

func (c *vhCodecW) Cut(codec Codec, encoded []byte, maxEncodedLen int) (int, int, error) {
	if maxEncodedLen < vhFrame || len(encoded) < vhFrame {
		return 0, 0, errors.New("vh: cannot cut below the frame header")
	}
	if maxEncodedLen >= len(encoded) {
		return len(encoded), len(encoded) - vhFrame, nil
	}
	encoded[0] = byte(maxEncodedLen - vhFrame)
	return maxEncodedLen, maxEncodedLen - vhFrame, nil
}

func (c *vhCodecW) WrapResource(raw []byte) ([]byte, error) { return raw, nil }

type vhSliceReader struct {
	b []byte
}

func (r *vhSliceReader) Read(p []byte) (int, error) {
	if len(r.b) == 0 {
		return 0, io.EOF
	}
	n := copy(p, r.b)
	r.b = r.b[n:]
	return n, nil
}

type vhCodecR struct {
	resources [][]byte
	bad       []string
}

func (c *vhCodecR) Close() error         { return nil }
func (c *vhCodecR) Accepts(x Codec) bool { return x == vhCodec }
func (c *vhCodecR) Clone() CodecReader   { return c }

func (c *vhCodecR) MakeDecompressor(racFile io.ReadSeeker, ch Chunk) (io.Reader, error) {
	if ch.CPrimary.Size() < vhFrame {
		return nil, errInvalidChunk
	}
	if _, err := racFile.Seek(ch.CPrimary[0], io.SeekStart); err != nil {
		return nil, err
	}
	var hdr [vhFrame]byte
	if _, err := io.ReadFull(racFile, hdr[:]); err != nil {
		return nil, err
	}
	n := int(hdr[0])
	if int64(n+vhFrame) > ch.CPrimary.Size() {
		return nil, errInvalidChunkTruncated
	}
	buf := make([]byte, n)
	if _, err := io.ReadFull(racFile, buf); err != nil {
		return nil, err
	}
	return &vhSliceReader{b: buf}, nil
}

// ---- in-memory files with fault injection ----

var vhErrIO = errors.New("vh: injected I/O failure")

type vhFaults struct {
	calls  int
	failAt int // the failAt'th I/O call (1-based, counted over sink and temp file) fails; 0 = never
	failed bool
}

func (f *vhFaults) hit() bool {
	f.calls++
	if f.failAt != 0 && f.calls == f.failAt {
		f.failed = true
		return true
	}
	return false
}

type vhSink struct {
	data []byte
	f    *vhFaults
}

func (s *vhSink) Write(p []byte) (int, error) {
	if s.f.hit() {
		return 0, vhErrIO
	}
	s.data = append(s.data, p...)
	return len(p), nil
}

// vhTemp is a TempFile that is not an io.Seeker: reads consume what was written, in order.
type vhTemp struct {
	data []byte
	rpos int
	f    *vhFaults
}

func (t *vhTemp) Write(p []byte) (int, error) {
	if t.f.hit() {
		return 0, vhErrIO
	}
	t.data = append(t.data, p...)
	return len(p), nil
}

func (t *vhTemp) Read(p []byte) (int, error) {
	if t.f.hit() {
		return 0, vhErrIO
	}
	if t.rpos >= len(t.data) {
		return 0, io.EOF
	}
	n := copy(p, t.data[t.rpos:])
	t.rpos += n
	return n, nil
}

// vhTempSeek is a TempFile with a shared read/write position (like an *os.File), starting
// at a non-zero offset so that tempFileSeekStart matters.
type vhTempSeek struct {
	data []byte
	pos  int64
	f    *vhFaults
}

func (t *vhTempSeek) Write(p []byte) (int, error) {
	if t.f.hit() {
		return 0, vhErrIO
	}
	for int64(len(t.data)) < t.pos+int64(len(p)) {
		t.data = append(t.data, 0)
	}
	copy(t.data[t.pos:], p)
	t.pos += int64(len(p))
	return len(p), nil
}

func (t *vhTempSeek) Read(p []byte) (int, error) {
	if t.f.hit() {
		return 0, vhErrIO
	}
	if t.pos >= int64(len(t.data)) {
		return 0, io.EOF
	}
	n := copy(p, t.data[t.pos:])
	t.pos += int64(n)
	return n, nil
}

func (t *vhTempSeek) Seek(offset int64, whence int) (int64, error) {
	if t.f.hit() {
		return 0, vhErrIO
	}
	switch whence {
	case io.SeekStart:
		t.pos = offset
	case io.SeekCurrent:
		t.pos += offset
	default:
		t.pos = int64(len(t.data)) + offset
	}
	return t.pos, nil
}

type vhRS struct {
	data []byte
	pos  int64
}

func (r *vhRS) Read(p []byte) (int, error) {
	if r.pos >= int64(len(r.data)) {
		return 0, io.EOF
	}
	n := copy(p, r.data[r.pos:])
	r.pos += int64(n)
	return n, nil
}

func (r *vhRS) Seek(offset int64, whence int) (int64, error) {
	switch whence {
	case io.SeekStart:
		r.pos = offset
	case io.SeekCurrent:
		r.pos += offset
	default:
		r.pos = int64(len(r.data)) + offset
	}
	if r.pos < 0 {
		return 0, errors.New("vh: negative seek")
	}
	return r.pos, nil
}

