package rac

// Unit lemmas on unexported pieces of the writer (auxiliary harnesses).

func vhAbstract(b *writeBuffer) []byte {
	out := append([]byte(nil), b.prev[b.p:]...)
	return append(out, b.curr...)
}

// VH_C13_WriteBuffer: one writeBuffer operation from an arbitrary state (prev of NP bytes, any
// p, curr of NC bytes, all contents symbolic) against the abstract sequence prev[p:] ++ curr.
func VH_C13_WriteBuffer() {
	np, nc := vParam("NP"), vParam("NC")
	b := &writeBuffer{prev: vBytes("prev", np), curr: vBytes("curr", nc)}
	p := vInt("p")
	vAssume(vAnd(p >= 0, p <= np))
	b.p = vConc(p)
	before := vhAbstract(b)
	vCheck(b.length() == uint64(len(before)), "wbuf/length")
	switch vParam("OP") {
	case 0: // advancePastLeadingZeroes: the bytes skipped are zeroes and what remains is the rest
		n := b.advancePastLeadingZeroes()
		after := vhAbstract(b)
		vCheck(n <= uint64(len(before)), "wbuf/zeroes-count-in-range")
		if n <= uint64(len(before)) {
			k := vConc(int(n))
			vCheck(len(after) == len(before)-k, "wbuf/zeroes-rest-length")
			for i := 0; i < k; i++ {
				vCheck(before[i] == 0, "wbuf/skipped-bytes-are-zero")
			}
			if len(after) == len(before)-k {
				for i := range after {
					vCheck(after[i] == before[k+i], "wbuf/zeroes-rest-is-a-suffix")
				}
			}
		}
	case 1: // peek then advance
		m := vInt("m")
		vAssume(vAnd(m >= 0, m <= len(before)+1))
		k := vConc(m)
		x, y := b.peek(uint64(k))
		got := append(append([]byte(nil), x...), y...)
		want := k
		if want > len(before) {
			want = len(before)
		}
		vCheck(len(got) == want, "wbuf/peek-length")
		if len(got) == want {
			for i := range got {
				vCheck(got[i] == before[i], "wbuf/peek-bytes")
			}
		}
		if k <= len(before) {
			b.advance(uint64(k))
			after := vhAbstract(b)
			vCheck(len(after) == len(before)-k, "wbuf/advance-length")
			if len(after) == len(before)-k {
				for i := range after {
					vCheck(after[i] == before[k+i], "wbuf/advance-suffix")
				}
			}
		}
	case 2: // compact keeps the sequence
		b.compact()
		after := vhAbstract(b)
		vCheck(len(b.curr) == 0 && b.p == 0, "wbuf/compact-state")
		vCheck(len(after) == len(before), "wbuf/compact-length")
		if len(after) == len(before) {
			for i := range after {
				vCheck(after[i] == before[i], "wbuf/compact-bytes")
			}
		}
	}
	vReach("wbuf/done")
}
