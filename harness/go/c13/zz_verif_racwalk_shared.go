package rac

// An index walker written from doc/spec/rac-spec.md, independent of chunk_reader.go, plus the
// stub "store" codec used by the RAC harnesses (shared by C13, C14 and C15).

const vhCodec = Codec(0x05 << 56) // a valid Short Codec that no real codec uses

func vhU48(b []byte) int64 {
	return int64(b[0]) | int64(b[1])<<8 | int64(b[2])<<16 | int64(b[3])<<24 | int64(b[4])<<32 | int64(b[5])<<40
}

func vhCRC32(b []byte) uint32 {
	c := ^uint32(0)
	for _, x := range b {
		c ^= uint32(x)
		for k := 0; k < 8; k++ {
			if c&1 != 0 {
				c = c>>1 ^ 0xEDB88320
			} else {
				c >>= 1
			}
		}
	}
	return ^c
}

type vhNode struct {
	b     []byte // exactly the node's bytes
	arity int
}

func (n *vhNode) tTag(i int) byte   { return n.b[8*i+7] }
func (n *vhNode) sTag(i int) byte   { return n.b[8*n.arity+8+8*i+7] }
func (n *vhNode) cLen(i int) byte   { return n.b[8*n.arity+8+8*i+6] }
func (n *vhNode) cPtr(i int) int64  { return vhU48(n.b[8*n.arity+8+8*i:]) }
func (n *vhNode) cPtrMax() int64    { return vhU48(n.b[16*n.arity+8:]) }
func (n *vhNode) dPtrMax() int64    { return vhU48(n.b[8*n.arity:]) }
func (n *vhNode) version() byte     { return n.b[16*n.arity+14] }
func (n *vhNode) codecByte() byte   { return n.b[8*n.arity+7] }
func (n *vhNode) dPtr(i int) int64 {
	if i == 0 {
		return 0
	}
	return vhU48(n.b[8*i:])
}

// vhParseNode applies "Branch Node Validation" to the bytes at off. why names the first rule broken.
func vhParseNode(f []byte, off int64) (n *vhNode, why string) {
	if off < 0 || off+4 > int64(len(f)) {
		return nil, "node header outside the file"
	}
	if f[off] != 0x72 || f[off+1] != 0xC3 || f[off+2] != 0x63 {
		return nil, "magic"
	}
	arity := int(f[off+3])
	if arity == 0 {
		return nil, "zero arity"
	}
	size := int64(16*arity + 16)
	if off+size > int64(len(f)) {
		return nil, "node extends past the file"
	}
	n = &vhNode{b: f[off : off+size], arity: arity}
	if int(n.b[size-1]) != arity {
		return nil, "the two arity bytes differ"
	}
	children := 0
	for i := 0; i < arity; i++ {
		if n.b[8*i+6] != 0 {
			return nil, "reserved byte"
		}
		t := n.tTag(i)
		if t >= 0xC0 && t < 0xFD {
			return nil, "reserved TTag"
		}
		if t != 0xFD {
			children++
		}
	}
	if n.b[8*arity+6] != 0 {
		return nil, "reserved byte"
	}
	if children == 0 {
		return nil, "no child node"
	}
	c := vhCRC32(n.b[6:])
	c ^= c >> 16
	if n.b[4] != byte(c) || n.b[5] != byte(c>>8) {
		return nil, "checksum"
	}
	if n.version() != 1 {
		return nil, "version"
	}
	for i := 0; i < arity; i++ {
		if n.dPtr(i) > n.dPtr(i+1) {
			return nil, "DOffs not sorted"
		}
		if n.tTag(i) == 0xFD && n.dPtr(i) != n.dPtr(i+1) {
			return nil, "codec element with a non-empty DRange"
		}
	}
	for i := 0; i < arity; i++ {
		if n.tTag(i) != 0xFD && n.cPtr(i) > n.cPtrMax() {
			return nil, "COff exceeds COffMax"
		}
	}
	cb := n.codecByte()
	if cb&0x80 != 0 {
		// Long Codec: some element i with (i & 0x3F) == (cb & 0x3F) must be a codec element
		found := false
		for j := 0; j < 4; j++ {
			i := int(cb&0x3F) | j<<6
			if i < arity && n.tTag(i) == 0xFD {
				found = true
				break
			}
		}
		if !found {
			return nil, "long codec without codec element"
		}
	}
	return n, ""
}

func (n *vhNode) codec() Codec {
	cb := n.codecByte()
	if cb&0x80 == 0 {
		return Codec(cb&0x3F) << 56
	}
	for j := 0; j < 4; j++ {
		i := int(cb&0x3F) | j<<6
		if i < n.arity && n.tTag(i) == 0xFD {
			return Codec(uint64(n.cPtr(i))|uint64(n.cLen(i))<<48) | 1<<63
		}
	}
	return CodecInvalid
}

// makeCRange is the specification's MakeCRange(i).
func (n *vhNode) makeCRange(i int, cBias int64) (lo, hi int64) {
	max := cBias + n.cPtrMax()
	if i >= n.arity {
		return max, max
	}
	lo = cBias + n.cPtr(i)
	hi = max
	if l := int64(n.cLen(i)); l != 0 && lo+l*1024 < hi {
		hi = lo + l*1024
	}
	return lo, hi
}

type vhLeaf struct {
	dLo, dHi       int64
	cLo, cHi       int64
	sLo, sHi       int64
	tLo, tHi       int64
	sTag, tTag     byte
	codec          Codec
	depth          int
}

type vhWalkResult struct {
	why       string // "" when the file is structurally valid
	leaves    []vhLeaf
	dFileSize int64
	rootAtEnd bool
	rootOff   int64
	rootSize  int64
	nodes     int
}

// vhWalkFile finds the root node (start, then end) and visits the whole tree.
func vhWalkFile(f []byte) *vhWalkResult {
	res := &vhWalkResult{}
	if len(f) < 32 {
		res.why = "file shorter than 32 bytes"
		return res
	}
	if f[0] != 0x72 || f[1] != 0xC3 || f[2] != 0x63 {
		res.why = "file does not start with the magic bytes"
		return res
	}
	var root *vhNode
	rootOff := int64(0)
	if f[3] != 0 {
		if n, why := vhParseNode(f, 0); why == "" && n.cPtrMax() == int64(len(f)) {
			root = n
		}
	}
	if root == nil {
		arity := int(f[len(f)-1])
		size := int64(16*arity + 16)
		if arity == 0 || size > int64(len(f)) {
			res.why = "no root node at the start, and the last byte is not a usable arity"
			return res
		}
		rootOff = int64(len(f)) - size
		n, why := vhParseNode(f, rootOff)
		if why != "" {
			res.why = "root node at the end: " + why
			return res
		}
		if n.cPtrMax() != int64(len(f)) {
			res.why = "root node COffMax is not the file size"
			return res
		}
		root = n
		res.rootAtEnd = true
	}
	res.dFileSize = root.dPtrMax()
	res.rootOff, res.rootSize = rootOff, int64(len(root.b))
	vhWalkNode(f, res, root, rootOff, 0, 0, 1)
	if res.why == "" {
		// leaves must tile [0, DFileSize) in order
		pos := int64(0)
		for _, l := range res.leaves {
			if l.dLo != pos {
				res.why = "leaf DRanges are not contiguous"
				return res
			}
			pos = l.dHi
		}
		if pos != res.dFileSize {
			res.why = "leaf DRanges do not end at DFileSize"
		}
	}
	return res
}

func vhWalkNode(f []byte, res *vhWalkResult, n *vhNode, off, cBias, dBias int64, depth int) {
	res.nodes++
	if depth > 8 {
		res.why = "tree deeper than the walker's limit"
		return
	}
	cOffMax := cBias + n.cPtrMax()
	for a := 0; a < n.arity; a++ {
		if res.why != "" {
			return
		}
		t := n.tTag(a)
		if t == 0xFD {
			continue
		}
		dLo, dHi := dBias+n.dPtr(a), dBias+n.dPtr(a+1)
		if t == 0xFE {
			childOff := cBias + n.cPtr(a)
			rem := cOffMax - childOff
			if rem < 4 {
				res.why = "CRemaining < 4"
				return
			}
			childCBias := cBias
			if s := int(n.sTag(a)); s < n.arity {
				childCBias = cBias + n.cPtr(s)
			}
			child, why := vhParseNode(f, childOff)
			if why != "" {
				res.why = "child node: " + why
				return
			}
			if rem < int64(16*child.arity+16) {
				res.why = "CRemaining smaller than the child"
				return
			}
			if !(childOff < off || child.dPtrMax() < n.dPtrMax()) {
				res.why = "anti-loop rule"
				return
			}
			if n.codecByte()&0x40 == 0 && child.codec() != n.codec() {
				res.why = "child codec differs without mix bit"
				return
			}
			if child.version() > n.version() {
				res.why = "child version"
				return
			}
			if childCBias+child.cPtrMax() > cOffMax {
				res.why = "child COffMax exceeds the parent's"
				return
			}
			if child.dPtrMax() != dHi-dLo {
				res.why = "child DOffMax"
				return
			}
			vhWalkNode(f, res, child, childOff, childCBias, dLo, depth+1)
			continue
		}
		if dLo == dHi {
			continue // attribute (e.g. a resource element) or an empty leaf
		}
		l := vhLeaf{dLo: dLo, dHi: dHi, sTag: n.sTag(a), tTag: t, codec: n.codec(), depth: depth}
		l.cLo, l.cHi = n.makeCRange(a, cBias)
		l.sLo, l.sHi = n.makeCRange(int(l.sTag), cBias)
		l.tLo, l.tHi = n.makeCRange(int(l.tTag), cBias)
		if l.cLo > l.cHi || l.cLo < 0 || l.cHi > int64(len(f)) {
			res.why = "leaf Primary CRange outside the file"
			return
		}
		if l.sLo > l.sHi || l.sHi > int64(len(f)) || l.tLo > l.tHi || l.tHi > int64(len(f)) {
			res.why = "leaf Secondary/Tertiary CRange outside the file"
			return
		}
		res.leaves = append(res.leaves, l)
	}
}
