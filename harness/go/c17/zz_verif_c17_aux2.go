package litonlylzma

// VH_C17_ShiftLowLong: shiftLow from a state with E pending 0xFF digits, E drawn from
// {0, 1, 2, 254, 255, 256, 257, 300} (long carry chains are what "all-0xFF" inputs produce), any
// pendingHead and any low < 2^33: the digits flushed are exactly head(+carry) followed by E
// copies of 0xFF (or 0x00 after a carry), or the pending count grows by exactly one.
// Written so that it type-checks whatever integer type the pending counter has.
func VH_C17_ShiftLowLong() {
	e := vInt("extra")
	vAssume(vOr(vOr(vOr(e == 0, e == 1), vOr(e == 2, e == 254)), vOr(vOr(e == 255, e == 256), vOr(e == 257, e == 300))))
	e = vConc(e)
	low := vU64("low")
	vAssume(low < 1<<33)
	head := vU8("head")
	vAssume(vOr(low < 1<<32, head < 0xFF)) // a carry never reaches a head digit of 0xFF (invariant of VH_C17_EncStep)
	rEnc := rangeEncoder{dst: []byte{0x5A}, low: low, pendingHead: head}
	for i := 0; i < e; i++ {
		rEnc.pendingExtra++
	}
	vCheck(uint64(rEnc.pendingExtra) == uint64(e), "shiftlong/counter-holds-the-chain-length")
	rEnc.shiftLow()
	out := rEnc.dst[1:]
	vCheck(rEnc.dst[0] == 0x5A, "shiftlong/dst-prefix")
	vCheck(rEnc.low == (low<<8)&0xFFFFFFFF, "shiftlong/low-shifted")
	if low >= 0xFF000000 && low < 1<<32 {
		vCheck(len(out) == 0, "shiftlong/nothing-emitted-while-undecided")
		vCheck(uint64(rEnc.pendingExtra) == uint64(e)+1, "shiftlong/pending-count-grows-by-one")
		vCheck(rEnc.pendingHead == head, "shiftlong/head-kept")
	} else {
		carry := byte(0)
		fill := byte(0xFF)
		if low >= 1<<32 {
			carry, fill = 1, 0x00
		}
		vCheck(len(out) == e+1, "shiftlong/emits-head-and-every-pending-digit")
		if len(out) == e+1 {
			vCheck(out[0] == head+carry, "shiftlong/head-digit")
			ok := true
			for _, d := range out[1:] {
				if d != fill {
					ok = false
				}
			}
			vCheck(ok, "shiftlong/pending-digits")
		}
		vCheck(uint64(rEnc.pendingExtra) == 0, "shiftlong/pending-count-reset")
		vCheck(rEnc.pendingHead == byte(low>>24), "shiftlong/new-head")
	}
	vReach("shiftlong/done")
}
