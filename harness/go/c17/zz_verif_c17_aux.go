package litonlylzma

// Auxiliary lemmas over unexported functions: uvarint, one range-coder step
// from an arbitrary state (encoder/decoder duality), and the carry/pending
// digit invariant of shiftLow.

// VH_C17_Uvarint: decode(encode(x)) == x for every x < 2^63.
func VH_C17_Uvarint() {
	x := vU64("x")
	vAssume(x < 1<<63)
	enc := encodeUvarint([]byte{9}, x)
	vCheck(len(enc) >= 2 && len(enc) <= 10, "uvarint/length")
	rest, y, ok := decodeUvarint(append(enc[1:], 0xEE))
	vCheck(ok, "uvarint/ok")
	vCheck(y == x, "uvarint/value")
	vCheck(len(rest) == 1, "uvarint/consumed-exactly")
	vReach("uvarint/done")
}

// VH_C17_UvarintTotal: decodeUvarint on arbitrary bytes: no panic, consumes a prefix.
func VH_C17_UvarintTotal() {
	n := vParam("N")
	src := vBytes("s", n)
	rest, _, _ := decodeUvarint(src)
	vCheck(len(rest) <= n, "uvarint/rest-is-suffix")
	vReach("uvarinttotal/done")
}

func vhPow256(e uint64) uint64 {
	r := uint64(1)
	for i := uint64(0); i < e; i++ {
		r *= 256
	}
	return r
}

// VH_C17_EncStep: one encodeBit (including renormalisation and shiftLow) from
// an arbitrary encoder state satisfying the invariant
//
//	Inv:  X*2^32 + low + width <= 256^(extra+1) * 2^32,  width >= 2^24,
//	      low + width <= 2^33,
//	      X = pendingHead*256^extra + (256^extra - 1)
//
// (the first candidate, without low+width <= 2^33, was refuted from states no
// run reaches - two carries into one emitted digit; the strengthened
// invariant is inductive and holds initially: low = 0, width = 2^32-1)
//
// keeps Inv, scales the denoted number exactly (the bytes appended to dst,
// the pending digits and low denote 256^r times what they denoted before plus
// the chosen sub-interval offset), narrows [low, low+width) as the LZMA
// specification says, and updates the probability as specified.
func VH_C17_EncStep() {
	low := vU64("low")
	width := vU32("width")
	head := vU8("head")
	extra := vU64("extra")
	p0 := vU16("prob")
	bit := vU32("bit")
	vAssume(extra <= uint64(vParam("MAXEXTRA")))
	extra = uint64(vConc(int(extra)))
	vAssume(width >= 1<<24)
	vAssume(vAnd(p0 >= 31, p0 <= 2017))
	vAssume(bit <= 1)
	vAssume(low < 1<<33)
	vAssume(low+uint64(width) <= 1<<33) // at most one carry is outstanding
	pw := vhPow256(extra)
	x := uint64(head)*pw + (pw - 1)
	vAssume(x<<32+low+uint64(width) <= (pw*256)<<32)

	rEnc := rangeEncoder{dst: []byte{0x5A}, low: low, width: width, pendingHead: head, pendingExtra: extra}
	p := prob(p0)
	p.encodeBit(&rEnc, bit)

	// specification of one step
	thr := (width >> 11) * uint32(p0)
	lowS, widthS, pS := low, thr, p0+(2048-p0)>>5
	if bit != 0 {
		lowS, widthS, pS = low+uint64(thr), width-thr, p0-(p0>>5)
	}
	vCheck(vAnd(thr > 0, thr < width), "step/threshold-inside-width")
	vCheck(lowS+uint64(widthS) <= low+uint64(width), "step/interval-narrows")
	renorm := widthS < 1<<24
	before := x<<32 + lowS
	if renorm {
		before <<= 8
		widthS <<= 8
	}
	vCheck(uint16(p) == pS, "step/prob-update")
	vCheck(vAnd(uint16(p) >= 31, uint16(p) <= 2017), "step/prob-range-kept")
	vCheck(rEnc.width == widthS, "step/width")
	vCheck(rEnc.width >= 1<<24, "step/width-normalised")
	vCheck(rEnc.pendingExtra <= extra+1, "step/pending-count")
	e2 := uint64(vConc(int(rEnc.pendingExtra)))
	out := rEnc.dst[1:]
	digits := uint64(len(out)) + e2
	want := extra
	if renorm {
		want++
	}
	vCheck(digits == want, "step/digit-count")
	val := uint64(0)
	for _, d := range out {
		val = val<<8 | uint64(d)
	}
	pw2 := vhPow256(e2)
	x2 := (val*256+uint64(rEnc.pendingHead))*pw2 + (pw2 - 1)
	vCheck(x2<<32+rEnc.low == before, "step/denoted-number")
	vCheck(rEnc.low+uint64(rEnc.width) <= 1<<33, "step/one-carry-invariant-kept")
	// Inv for the new pending digits alone (the emitted digits are final)
	x3 := uint64(rEnc.pendingHead)*pw2 + (pw2 - 1)
	vCheck(x3<<32+rEnc.low+uint64(rEnc.width) <= (pw2*256)<<32, "step/invariant-kept")
	vCheck(rEnc.dst[0] == 0x5A, "step/dst-prefix")
	vReach("encstep/done")
}

// VH_C17_Duality: for every encoder step and every code value inside the
// interval the encoder selects, the decoder started at bits = code - low
// returns the same bit and stays in lock step (width, prob, bits).
func VH_C17_Duality() {
	low := vU64("low")
	width := vU32("width")
	p0 := vU16("prob")
	bit := vU32("bit")
	off := vU32("off")
	next := vU8("next")
	vAssume(width >= 1<<24)
	vAssume(vAnd(p0 >= 31, p0 <= 2017))
	vAssume(bit <= 1)
	vAssume(low < 1<<32)
	thr := (width >> 11) * uint32(p0)
	lowS, widthS := low, thr
	if bit != 0 {
		lowS, widthS = low+uint64(thr), width-thr
	}
	vAssume(off < widthS)
	rEnc := rangeEncoder{low: low, width: width}
	pe := prob(p0)
	pe.encodeBit(&rEnc, bit)

	rDec := rangeDecoder{src: []byte{next, 0x11}, bits: uint32(lowS + uint64(off) - low), width: width}
	pd := prob(p0)
	got, err := pd.decodeBit(&rDec)
	vCheck(err == nil, "dual/no-error")
	vCheck(got == bit, "dual/bit")
	vCheck(pd == pe, "dual/prob")
	vCheck(rDec.width == rEnc.width, "dual/width")
	if widthS < 1<<24 {
		vCheck(rDec.bits == off<<8|uint32(next), "dual/bits-renormalised")
		vCheck(len(rDec.src) == 1, "dual/consumed-one-byte")
	} else {
		vCheck(rDec.bits == off, "dual/bits")
		vCheck(len(rDec.src) == 2, "dual/consumed-nothing")
	}
	vReach("duality/done")
}
