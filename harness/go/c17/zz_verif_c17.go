package litonlylzma

// C17 harnesses (public API): round trips, XZ framing with a stubbed raw coder,
// decoder robustness.

func vhFormat() FileFormat {
	if vParam("XZ") == 1 {
		return FileFormatXz
	}
	return FileFormatLZMA
}

// VH_C17_RoundTrip: Decode(Encode(m)) == m for every payload of N bytes. Every
// payload bit steers the range coder, so each byte is case-split (vConc): the
// solver enumerates the 256^N payloads; the step lemmas carry the "every
// state" weight.
func VH_C17_RoundTrip() {
	n := vParam("N")
	f := vhFormat()
	m := make([]byte, n)
	for i := range m {
		m[i] = byte(vConc(int(vU8("m"))))
	}
	prefix := []byte{0xAA, 0xBB}
	enc, err := f.Encode(prefix, m)
	vCheck(err == nil, "rt/encode-error")
	vCheck(len(enc) >= 2 && enc[0] == 0xAA && enc[1] == 0xBB, "rt/dst-prefix-kept")
	dec, rest, err := f.Decode([]byte{0xCC}, enc[2:])
	vCheck(err == nil, "rt/decode-error")
	vCheck(len(rest) == 0, "rt/nothing-left-over")
	vCheck(len(dec) == 1+n, "rt/decoded-length")
	if len(dec) == 1+n {
		vCheck(dec[0] == 0xCC, "rt/dst-prefix-kept")
		for i := range m {
			vCheck(dec[1+i] == m[i], "rt/bytes")
		}
	}
	vReach("rt/done")
}

var vhStashes [][]byte
var vhDecIdx int

// Stub raw coder (symbolic run only, via Config.Replace): a 5+e byte token;
// the payload travels out of band. It obeys decodeRaw(encodeRaw(x)) == x and
// has nondeterministic length, which is all the XZ framing may rely on.
func vhStubEncodeRaw(dst []byte, src []byte) []byte {
	vhStashes = append(vhStashes, append([]byte(nil), src...))
	if len(src) >= 1000 {
		// large chunk: the stub's output length is len(src)+d for a symbolic d around the
		// compressed-versus-raw decision point (and around the 16-bit packed-size field limit)
		d := vInt("rawdelta")
		vAssume(vAnd(d >= -8, d <= 6))
		total := len(src) + vConc(d)
		dst = append(dst, 0x00, 'W', byte(total>>16), byte(total>>8), byte(total))
		filler := make([]byte, total-5)
		for i := range filler {
			filler[i] = 0x77
		}
		return append(dst, filler...)
	}
	e := vU8("rawpad")
	vAssume(e <= 2)
	dst = append(dst, 0x00, 'V', 'H', e, 0x00)
	for i := 0; i < vConc(int(e)); i++ {
		dst = append(dst, 0x77)
	}
	return dst
}

func vhStubDecodeRaw(dst []byte, src []byte, size uint64, errUnsupported error) ([]byte, []byte, error) {
	if vhDecIdx >= len(vhStashes) {
		return dst, src, errUnsupported
	}
	vhStash := vhStashes[vhDecIdx]
	vhDecIdx++
	if len(src) >= 5 && src[0] == 0x00 && src[1] == 'W' {
		total := int(src[2])<<16 | int(src[3])<<8 | int(src[4])
		if len(src) < total || uint64(len(vhStash)) != size {
			return dst, src, errUnsupported
		}
		return append(dst, vhStash...), src[total:], nil
	}
	if len(src) < 5 || src[0] != 0x00 || src[1] != 'V' || src[2] != 'H' {
		return dst, src, errUnsupported
	}
	e := int(src[3])
	if len(src) < 5+e || uint64(len(vhStash)) != size {
		return dst, src, errUnsupported
	}
	return append(dst, vhStash...), src[5+e:], nil
}

// VH_C17_XzFrameBig: one full 65536-byte chunk (plus TAIL further bytes) with the stub raw
// coder's output length symbolic around 65536: the compressed-versus-raw choice, the 16-bit
// size fields and the multi-chunk bookkeeping round-trip.
func VH_C17_XzFrameBig() {
	n := 0x10000 + vParam("TAIL")
	m := make([]byte, n)
	for i := range m {
		m[i] = byte(i*7 + 3)
	}
	enc, err := FileFormatXz.Encode(nil, m)
	vCheck(err == nil, "xzbig/encode-error")
	vCheck(len(enc)%4 == 0, "xzbig/file-size-multiple-of-4")
	dec, rest, err := FileFormatXz.Decode(nil, enc)
	vCheck(err == nil, "xzbig/decode-error")
	vCheck(len(rest) == 0, "xzbig/nothing-left-over")
	vCheck(len(dec) == n, "xzbig/decoded-length")
	if len(dec) == n {
		ok := true
		for i := range m {
			if dec[i] != m[i] {
				ok = false
			}
		}
		vCheck(ok, "xzbig/bytes")
	}
	vReach("xzbig/done")
}

// VH_C17_XzFrame: XZ container logic (chunk kind choice, sizes, padding,
// index, backward size, three CRC positions) round-trips for every payload
// of length <= NMAX with the raw coder stubbed.
func VH_C17_XzFrame() {
	nmax := vParam("NMAX")
	n := vInt("n")
	vAssume(vAnd(0 <= n, n <= nmax))
	n = vConc(n)
	m := vBytes("m", n)
	enc, err := FileFormatXz.Encode(nil, m)
	vCheck(err == nil, "xz/encode-error")
	vCheck(len(enc)%4 == 0, "xz/file-size-multiple-of-4")
	vCheck(len(enc) >= 32, "xz/min-size")
	if len(enc) >= 32 {
		vCheck(enc[len(enc)-2] == 'Y' && enc[len(enc)-1] == 'Z', "xz/footer-magic")
		vCheck(enc[0] == 0xFD && enc[1] == '7' && enc[2] == 'z' && enc[3] == 'X' && enc[4] == 'Z' && enc[5] == 0, "xz/header-magic")
	}
	dec, rest, err := FileFormatXz.Decode(nil, enc)
	vCheck(err == nil, "xz/decode-error")
	vCheck(len(rest) == 0, "xz/nothing-left-over")
	vCheck(len(dec) == n, "xz/decoded-length")
	if len(dec) == n {
		for i := range m {
			vCheck(dec[i] == m[i], "xz/bytes")
		}
	}
	vReach("xz/done")
}

// VH_C17_RobustLZMA: arbitrary bytes never panic the decoder; results stay inside the inputs.
func VH_C17_RobustLZMA() {
	n := vParam("N")
	src := vBytes("src", n)
	if n >= 13 {
		// bound the declared size so that the decode loop is bounded
		size := uint64(0)
		for i := 0; i < 8; i++ {
			size |= uint64(src[5+i]) << uint(8*i)
		}
		vAssume(vOr(size <= uint64(vParam("MAXSIZE")), size >= 1<<63))
	}
	dst := []byte{1, 2, 3}
	out, rest, err := FileFormatLZMA.Decode(dst, src)
	vCheck(len(rest) <= len(src), "robust/rest-within-src")
	if err == nil {
		vCheck(len(out) >= 3, "robust/dst-prefix")
		vCheck(len(out) <= 3+vParam("MAXSIZE"), "robust/output-bounded")
	}
	vReach("robust/done")
}

// VH_C17_RobustXz: valid 24-byte header followed by M arbitrary bytes.
func VH_C17_RobustXz() {
	mm := vParam("M")
	src := append([]byte(xzHeader24), vBytes("src", mm)...)
	out, rest, err := FileFormatXz.Decode(nil, src)
	vCheck(len(rest) <= len(src), "robustxz/rest-within-src")
	if err == nil {
		vCheck(len(out) <= 0x10000*mm, "robustxz/output-bounded")
	}
	vReach("robustxz/done")
}
