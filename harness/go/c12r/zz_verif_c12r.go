package render

// C12 (Wuffs formatter, numeric literals): appendNum on every literal the tokenizer accepts.

func vhHex(c byte) bool {
	return ('0' <= c && c <= '9') || ('a' <= c && c <= 'f') || ('A' <= c && c <= 'F')
}

func vhLower(c byte) byte {
	if 'A' <= c && c <= 'Z' {
		return c + ('a' - 'A')
	}
	return c
}

// VH_C12_Num: for every numeric literal of N bytes accepted by the tokenizer's rules (decimal,
// 0x/0X hexadecimal, 0b/0B binary; single interior underscores), appendNum writes the same
// digits (hex digits case-folded, prefix lower-cased) with underscores exactly between groups
// of 6 (decimal) or 4 (hexadecimal, binary) digits counted from the right.
func VH_C12_Num() {
	n := vParam("N")
	b := vBytes("lit", n)
	// the tokenizer's acceptance rules, restated
	if !('0' <= b[0] && b[0] <= '9') {
		return
	}
	base, start := 10, 0
	if n >= 2 && b[0] == '0' {
		if b[1] == 'x' || b[1] == 'X' {
			base, start = 16, 2
		} else if b[1] == 'b' || b[1] == 'B' {
			base, start = 2, 2
		} else if '0' <= b[1] && b[1] <= '9' {
			return // legacy octal
		}
	}
	prevU := false
	for i := 0; i < n; i++ {
		c := b[i]
		if i >= start || i == 0 {
			ok := c == '_'
			switch base {
			case 10:
				ok = ok || ('0' <= c && c <= '9')
			case 16:
				ok = ok || vhHex(c)
			default:
				ok = ok || c == '0' || c == '1'
			}
			if i == 0 {
				ok = '0' <= c && c <= '9'
			}
			if !ok {
				return
			}
		}
		if c == '_' && prevU {
			return
		}
		prevU = c == '_'
	}
	if prevU {
		return
	}
	out := appendNum([]byte("<"), string(b))
	vCheck(len(out) >= 1 && out[0] == '<', "num/keeps-buffer-prefix")
	out = out[1:]
	// expected digits
	var digits []byte
	for i := start; i < n; i++ {
		if b[i] != '_' {
			digits = append(digits, b[i])
		}
	}
	group := 6
	if base != 10 {
		group = 4
	}
	var want []byte
	if base == 16 {
		want = append(want, "0x"...)
	} else if base == 2 {
		want = append(want, "0b"...)
	}
	for i, d := range digits {
		if i > 0 && (len(digits)-i)%group == 0 {
			want = append(want, '_')
		}
		want = append(want, d)
	}
	vCheck(len(out) == len(want), "num/length")
	if len(out) == len(want) {
		for i := range want {
			// case of hexadecimal digits may change, nothing else
			vCheck(vhLower(out[i]) == vhLower(want[i]), "num/digits-and-grouping")
		}
		for i := 0; i < start && i < len(out); i++ {
			vCheck(out[i] == want[i], "num/prefix-lower-case")
		}
	}
	vReach("num/done")
}
