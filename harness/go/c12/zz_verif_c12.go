package dumbindent

// C12 (indenter half). Reference lexer and normaliser are written from the package's
// documentation, independently of FormatBytes.

func vhBlank(c byte) bool { return c == ' ' || c == '\t' }

// vhClosed: every string, character, raw-string and comment delimiter is terminated.
// Preprocessor lines (first non-blank byte '#', continued by a trailing backslash) are opaque,
// as the package documents. Cooked strings must close on their own line.
func vhClosed(s []byte) bool {
	i := 0
	n := len(s)
	atLineStart := true
	preprocCont := false
	for i < n {
		if atLineStart {
			j := i
			for j < n && vhBlank(s[j]) {
				j++
			}
			if preprocCont || (j < n && s[j] == '#') {
				// opaque line
				k := j
				last := byte(0)
				for k < n && s[k] != '\n' {
					if !vhBlank(s[k]) {
						last = s[k]
					}
					k++
				}
				preprocCont = last == '\\'
				i = k
				if i < n {
					i++
				}
				continue
			}
			atLineStart = false
		}
		c := s[i]
		switch {
		case c == '\n':
			atLineStart = true
			i++
		case c == '/' && i+1 < n && s[i+1] == '/':
			for i < n && s[i] != '\n' {
				i++
			}
		case c == '/' && i+1 < n && s[i+1] == '*':
			i += 2
			for {
				if i+1 >= n {
					return false
				}
				if s[i] == '*' && s[i+1] == '/' {
					i += 2
					break
				}
				i++
			}
		case c == '`':
			i++
			for {
				if i >= n {
					return false
				}
				if s[i] == '`' {
					i++
					break
				}
				i++
			}
		case c == '"' || c == '\'':
			q := c
			i++
			for {
				if i >= n || s[i] == '\n' {
					return false
				}
				if s[i] == q {
					i++
					break
				}
				if s[i] == '\\' {
					i++
					if i >= n || s[i] == '\n' {
						return false
					}
				}
				i++
			}
		default:
			i++
		}
	}
	return true
}

// vhNorm strips each line's leading and trailing blanks, drops leading and trailing blank
// lines, and joins the lines with '\n'.
func vhNorm(s []byte) []byte {
	var lines [][]byte
	start := 0
	for i := 0; i <= len(s); i++ {
		if i == len(s) || s[i] == '\n' {
			l := s[start:i]
			for len(l) > 0 && vhBlank(l[0]) {
				l = l[1:]
			}
			for len(l) > 0 && vhBlank(l[len(l)-1]) {
				l = l[:len(l)-1]
			}
			lines = append(lines, l)
			start = i + 1
		}
	}
	for len(lines) > 0 && len(lines[len(lines)-1]) == 0 {
		lines = lines[:len(lines)-1]
	}
	for len(lines) > 0 && len(lines[0]) == 0 {
		lines = lines[1:]
	}
	var out []byte
	for k, l := range lines {
		if k > 0 {
			out = append(out, '\n')
		}
		out = append(out, l...)
	}
	return out
}

func vhOpts() *Options {
	switch vParam("OPTS") {
	case 1:
		return &Options{Spaces: 1}
	case 2:
		return &Options{Spaces: 3}
	case 3:
		return &Options{Tabs: true}
	}
	return nil
}

func vhCheckFormat(src []byte) {
	in := append([]byte(nil), src...)
	out := FormatBytes(nil, src, vhOpts())
	for i := range in {
		vCheck(src[i] == in[i], "indent/input-not-modified")
	}
	want, got := vhNorm(in), vhNorm(out)
	vCheck(len(got) == len(want), "indent/same-text-up-to-blanks-length")
	if len(got) == len(want) {
		for i := range want {
			vCheck(got[i] == want[i], "indent/same-text-up-to-blanks")
		}
	}
	if len(out) > 0 {
		vCheck(out[len(out)-1] == '\n', "indent/output-ends-with-newline")
	}
	out1 := append([]byte(nil), out...)
	again := FormatBytes(nil, out1, vhOpts())
	vCheck(len(again) == len(out), "indent/idempotent-length")
	if len(again) == len(out) {
		for i := range out {
			vCheck(again[i] == out[i], "indent/idempotent")
		}
	}
}

// VH_C12_Indent: every text of N bytes over the full byte range.
func VH_C12_Indent() {
	src := vBytes("t", vParam("N"))
	if !vhClosed(src) {
		vReach("indent/not-closed")
		return
	}
	vhCheckFormat(src)
	vReach("indent/done")
}

// vhHole returns 0..max symbolic bytes drawn from the indenter's significant alphabet.
func vhHole(max int) []byte {
	n := vInt("holelen")
	vAssume(vAnd(n >= 0, n <= max))
	n = vConc(n)
	b := vBytes("hole", n)
	for _, c := range b {
		ok := false
		for _, a := range []byte(" \n/*\"`x{") {
			if c == a {
				ok = true
			}
		}
		vAssume(ok)
	}
	return b
}

// VH_C12_IndentTemplate: multi-line constructs with symbolic holes:
// OPEN '\n' h1 CLOSE h2 SECOND h3, where (OPEN, CLOSE) is a comment or raw string
// and SECOND is another construct on the line that closes the first.
func VH_C12_IndentTemplate() {
	first := [][2]string{{"/*", "*/"}, {"`", "`"}}[vParam("FIRST")]
	second := []string{"/**/", "``", "\"\"", "{", "//", "/*\n*/", "(", "x"}[vParam("SECOND")]
	hm := vParam("HOLE")
	var src []byte
	src = append(src, first[0]...)
	src = append(src, '\n')
	src = append(src, vhHole(hm)...)
	src = append(src, first[1]...)
	src = append(src, vhHole(hm)...)
	src = append(src, second...)
	src = append(src, vhHole(hm)...)
	if !vhClosed(src) {
		vReach("tpl/not-closed")
		return
	}
	vhCheckFormat(src)
	vReach("tpl/done")
}

// vhHoleOf returns 0..max symbolic bytes drawn from the given alphabet.
func vhHoleOf(max int, alphabet string) []byte {
	n := vInt("holelen")
	vAssume(vAnd(n >= 0, n <= max))
	n = vConc(n)
	b := vBytes("hole", n)
	for _, c := range b {
		ok := false
		for _, a := range []byte(alphabet) {
			if c == a {
				ok = true
			}
		}
		vAssume(ok)
	}
	return b
}

// VH_C12_IndentCooked: a cooked string or character literal with symbolic contents over
// {backslash, the quote, the other quote, x, blank}, followed by symbolic text that the indenter
// treats specially ({ ( / * ` blank): escapes decide where the literal ends.
func VH_C12_IndentCooked() {
	q := []byte{'"', '\''}[vParam("QUOTE")]
	var src []byte
	src = append(src, 'x', q)
	src = append(src, vhHoleOf(vParam("HOLE"), "\\\"'x ")...)
	src = append(src, q)
	src = append(src, vhHoleOf(2, " {(/*`")...)
	if !vhClosed(src) {
		vReach("cooked/not-closed")
		return
	}
	vhCheckFormat(src)
	// a single line that starts in column 0: the output is exactly that line without its trailing
	// blanks, plus a newline
	out := FormatBytes(nil, append([]byte(nil), src...), vhOpts())
	want := vhNorm(src)
	vCheck(len(out) == len(want)+1, "cooked/exact-output-length")
	if len(out) == len(want)+1 {
		for i := range want {
			vCheck(out[i] == want[i], "cooked/exact-output")
		}
	}
	vReach("cooked/done")
}

// VH_C12_IndentPreproc: a preprocessor line with symbolic text after its continuation backslash
// (blanks there must not change whether the next line is a continuation), followed by a second line.
func VH_C12_IndentPreproc() {
	var src []byte
	src = append(src, "#define F(x) \\"...)
	src = append(src, vhHoleOf(vParam("HOLE"), " \t\\x")...)
	src = append(src, '\n')
	src = append(src, vhHoleOf(1, " #{")...)
	src = append(src, "g(x)\n"...)
	if !vhClosed(src) {
		vReach("preproc/not-closed")
		return
	}
	vhCheckFormat(src)
	vReach("preproc/done")
}
