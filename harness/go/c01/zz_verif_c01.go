package check

import (
	"math/big"

	a "github.com/google/wuffs/lang/ast"
	t "github.com/google/wuffs/lang/token"
)

// C01 layer A: the checker's interval transfer functions, executed on the real
// bcheckExprBinaryOp1 with symbolic operand bounds.

var _ = big.NewInt

func vhType(i int) (*a.TypeExpr, int) {
	switch i {
	case 1:
		return typeExprU16, 16
	case 2:
		return typeExprU32, 32
	}
	return typeExprU8, 8
}

var vhOps = []t.ID{
	t.IDXBinaryPlus, t.IDXBinaryMinus, t.IDXBinaryStar, t.IDXBinarySlash, t.IDXBinaryPercent,
	t.IDXBinaryShiftL, t.IDXBinaryTildeModShiftL, t.IDXBinaryShiftR,
	t.IDXBinaryAmp, t.IDXBinaryPipe, t.IDXBinaryHat,
	t.IDXBinaryTildeModPlus, t.IDXBinaryTildeModMinus, t.IDXBinaryTildeModStar,
	t.IDXBinaryTildeSatPlus, t.IDXBinaryTildeSatMinus,
}

// vhRef is the run-time meaning of `l op r` on values of an unsigned w-bit type, as
// doc/note/... and the generated C define it; ok=false where the language leaves it
// to the checker to rule the operands out (never reached when the checker accepts).
func vhRef(op t.ID, l, r int64, w int) int64 {
	mask := int64(1)<<uint(w) - 1
	switch op {
	case t.IDXBinaryPlus:
		return l + r
	case t.IDXBinaryMinus:
		return l - r
	case t.IDXBinaryStar:
		return l * r
	case t.IDXBinarySlash:
		return l / r
	case t.IDXBinaryPercent:
		return l % r
	case t.IDXBinaryShiftL:
		return l << uint(r)
	case t.IDXBinaryTildeModShiftL:
		return (l << uint(r)) & mask
	case t.IDXBinaryShiftR:
		return l >> uint(r)
	case t.IDXBinaryAmp:
		return l & r
	case t.IDXBinaryPipe:
		return l | r
	case t.IDXBinaryHat:
		return l ^ r
	case t.IDXBinaryTildeModPlus:
		return (l + r) & mask
	case t.IDXBinaryTildeModMinus:
		return (l - r) & mask
	case t.IDXBinaryTildeModStar:
		return (l * r) & mask
	case t.IDXBinaryTildeSatPlus:
		if l+r > mask {
			return mask
		}
		return l + r
	case t.IDXBinaryTildeSatMinus:
		if l-r < 0 {
			return 0
		}
		return l - r
	}
	return 0
}

// VH_C01_BinOp: operand intervals [l0,l1], [r0,r1] inside the type (and below 2^K), members
// l, r: whenever bcheckExprBinaryOp1 returns an interval, it is non-empty and contains l op r.
func VH_C01_BinOp() {
	op := vhOps[vParam("OP")]
	typ, w := vhType(vParam("TYPE"))
	k := vParam("K")
	if k > w {
		k = w
	}
	lim := int64(1) << uint(k)
	l0, l1, r0, r1 := vBig("l0", k+1), vBig("l1", k+1), vBig("r0", k+1), vBig("r1", k+1)
	vl0, vl1, vr0, vr1 := vBigVal(l0), vBigVal(l1), vBigVal(r0), vBigVal(r1)
	vAssume(vAnd(0 <= vl0, vAnd(vl0 <= vl1, vl1 < lim)))
	vAssume(vAnd(0 <= vr0, vAnd(vr0 <= vr1, vr1 < lim)))
	l, r := vI64("l"), vI64("r")
	vAssume(vAnd(vl0 <= l, l <= vl1))
	vAssume(vAnd(vr0 <= r, r <= vr1))

	lhs := a.NewExpr(0, 0, t.IDThis, nil, nil, nil, nil)
	lhs.SetMType(typ)
	lhs.SetMBounds(bounds{l0, l1})
	rhs := a.NewExpr(0, 0, t.IDArgs, nil, nil, nil, nil)
	rhs.SetMType(typ)
	rhs.SetMBounds(bounds{r0, r1})
	q := &checker{tm: &t.Map{}}
	nb, err := q.bcheckExprBinaryOp1(op, lhs, bounds{l0, l1}, rhs, 0)
	if err != nil {
		vReach("binop/rejected")
		return
	}
	vCheck(nb[0] != nil && nb[1] != nil, "binop/bounds-present")
	if nb[0] == nil || nb[1] == nil {
		return
	}
	lo, hi := vBigVal(nb[0]), vBigVal(nb[1])
	v := vhRef(op, l, r, w)
	vCheck(lo <= hi, "binop/interval-not-inverted")
	vCheck(vAnd(lo <= v, v <= hi), "binop/contains-the-result")
	vCheck(vBigVal(l0) == vl0 && vBigVal(l1) == vl1 && vBigVal(r0) == vr0 && vBigVal(r1) == vr1, "binop/operands-unmodified")
	vReach("binop/done")
}

var vhCmpOps = []t.ID{t.IDXBinaryNotEq, t.IDXBinaryLessThan, t.IDXBinaryLessEq, t.IDXBinaryEqEq, t.IDXBinaryGreaterEq, t.IDXBinaryGreaterThan}

func vhCmp(op t.ID, a, b int64) bool {
	switch op {
	case t.IDXBinaryNotEq:
		return a != b
	case t.IDXBinaryLessThan:
		return a < b
	case t.IDXBinaryLessEq:
		return a <= b
	case t.IDXBinaryEqEq:
		return a == b
	case t.IDXBinaryGreaterEq:
		return a >= b
	}
	return a > b
}

// VH_C01_Refine: facts.refine with one fact `n OP c` (SIDE 0) or `c OP n` (SIDE 1): every value
// inside the incoming bounds that satisfies the fact stays inside the refined bounds, and an
// "inconsistent" error is only reported when no value satisfies the fact.
func VH_C01_Refine() {
	op := vhCmpOps[vParam("OP")]
	k := vParam("K")
	lim := int64(1) << uint(k)
	b0, b1, c := vBig("b0", k+1), vBig("b1", k+1), vBig("c", k+1)
	vb0, vb1, vc := vBigVal(b0), vBigVal(b1), vBigVal(c)
	vAssume(vAnd(-lim < vb0, vAnd(vb0 <= vb1, vb1 < lim)))
	vAssume(vAnd(-lim < vc, vc < lim))
	v := vI64("v")
	vAssume(vAnd(vb0 <= v, v <= vb1))

	n := a.NewExpr(0, 0, t.IDThis, nil, nil, nil, nil)
	n.SetMType(typeExprU32)
	ce := a.NewExpr(0, 0, t.IDArgs, nil, nil, nil, nil)
	ce.SetConstValue(c)
	ce.SetMType(typeExprIdeal)
	var fact *a.Expr
	holds := false
	if vParam("SIDE") == 0 {
		fact = a.NewExpr(0, op, 0, n.AsNode(), nil, ce.AsNode(), nil)
		holds = vhCmp(op, v, vc)
	} else {
		fact = a.NewExpr(0, op, 0, ce.AsNode(), nil, n.AsNode(), nil)
		holds = vhCmp(op, vc, v)
	}
	nb, err := facts{fact}.refine(n, bounds{b0, b1}, &t.Map{})
	if err != nil {
		vCheck(!holds, "refine/inconsistent-only-when-no-value-satisfies-the-fact")
		vReach("refine/rejected")
		return
	}
	if holds {
		vCheck(vAnd(vBigVal(nb[0]) <= v, v <= vBigVal(nb[1])), "refine/keeps-every-value-that-satisfies-the-fact")
	}
	vCheck(nb[0] != nil && nb[1] != nil, "refine/bounds-present")
	vReach("refine/done")
}
