package rac

import (
	"hash/crc32"
	"io"
)

// C14 (sequential half): rac.Reader with Concurrency == 0 against an in-memory model.

// vhBuildFile writes the concrete payload with the real Writer and the stub codec.
// LAYOUT 0: DChunkSize 4, index at end; 1: CChunkSize (2 data bytes), index at start, page 8;
// 2: DChunkSize 3, index at end; 3: the hand-built three-level file of vhDeepFile.
func vhBuildFile(payload []byte) []byte {
	faults := &vhFaults{}
	sink := &vhSink{f: faults}
	w := &Writer{Writer: sink, CodecWriter: &vhCodecW{}}
	switch vParam("LAYOUT") {
	case 0:
		w.DChunkSize = 4
	case 1:
		w.CChunkSize = 2 + vhFrame
		w.IndexLocation = IndexLocationAtStart
		w.TempFile = &vhTemp{f: faults}
		w.CPageSize = 8
	default:
		w.DChunkSize = 3
	}
	if _, err := w.Write(payload); err != nil {
		vFail("build/write")
	}
	if err := w.Close(); err != nil {
		vFail("build/close")
	}
	return sink.data
}

func vhPut48(b []byte, v int64, b6, b7 byte) {
	for i := 0; i < 6; i++ {
		b[i] = byte(v >> (8 * uint(i)))
	}
	b[6], b[7] = b6, b7
}

// vhNodeBytes encodes one branch node as doc/spec/rac-spec.md lays it out.
func vhNodeBytes(dptr []int64, ttag []byte, cptr []int64, clen []byte, stag []byte, cptrMax int64) []byte {
	a := len(ttag)
	b := make([]byte, 16*a+16)
	b[0], b[1], b[2], b[3] = 0x72, 0xC3, 0x63, byte(a)
	b[6], b[7] = 0, ttag[0]
	for i := 1; i < a; i++ {
		vhPut48(b[8*i:], dptr[i], 0, ttag[i])
	}
	vhPut48(b[8*a:], dptr[a], 0, byte(vhCodec>>56))
	for i := 0; i < a; i++ {
		vhPut48(b[8*a+8+8*i:], cptr[i], clen[i], stag[i])
	}
	vhPut48(b[16*a+8:], cptrMax, 1, byte(a))
	c := crc32.ChecksumIEEE(b[6:])
	c ^= c >> 16
	b[4], b[5] = byte(c), byte(c>>8)
	return b
}

// vhDeepFile is a hand-built valid RAC file with a three-level index whose inner branch
// nodes have a non-zero DBias: root R (at the end) = [leaf "AB", branch M]; M = [branch L,
// leaf "FGH"]; L = [leaf "CD", leaf "E"]. The writer only produces such trees for > 65025
// chunks; the specification allows them (and builds them by concatenation).
//
// Variant 1 has unequal chunk sizes around the node boundaries: R = [leaf "AB", branch M];
// M = [branch L, leaf "F", leaf "GH"]; L = [leaf "C", leaf "DE"] (a seek into the middle of a
// chunk followed by reads across the end of its leaf node must not skip the one-byte chunk).
func vhDeepFile(variant int) ([]byte, []byte) {
	frame := func(data string) []byte { return append([]byte{byte(len(data)), 0, 0}, data...) }
	var f []byte
	if variant == 1 {
		l := vhNodeBytes([]int64{0, 1, 3}, []byte{0xFF, 0xFF}, []int64{117, 121}, []byte{1, 1}, []byte{0xFF, 0xFF}, 135)
		m := vhNodeBytes([]int64{0, 3, 4, 6}, []byte{0xFE, 0xFF, 0xFF}, []int64{0, 126, 130}, []byte{1, 1, 1}, []byte{0xFF, 0xFF, 0xFF}, 135)
		f = append(f, l...)
		f = append(f, m...)
		f = append(f, frame("AB")...) // 112
		f = append(f, frame("C")...)  // 117
		f = append(f, frame("DE")...) // 121
		f = append(f, frame("F")...)  // 126
		f = append(f, frame("GH")...) // 130
		r := vhNodeBytes([]int64{0, 2, 8}, []byte{0xFF, 0xFE}, []int64{112, 48}, []byte{1, 1}, []byte{0xFF, 0xFF}, 183)
		f = append(f, r...)
		return f, []byte("ABCDEFGH")
	}
	l := vhNodeBytes([]int64{0, 2, 3}, []byte{0xFF, 0xFF}, []int64{101, 106}, []byte{1, 1}, []byte{0xFF, 0xFF}, 116)
	m := vhNodeBytes([]int64{0, 3, 6}, []byte{0xFE, 0xFF}, []int64{0, 110}, []byte{1, 1}, []byte{0xFF, 0xFF}, 116)
	f = append(f, l...)
	f = append(f, m...)
	f = append(f, frame("AB")...)  // 96
	f = append(f, frame("CD")...)  // 101
	f = append(f, frame("E")...)   // 106
	f = append(f, frame("FGH")...) // 110
	r := vhNodeBytes([]int64{0, 2, 8}, []byte{0xFF, 0xFE}, []int64{96, 48}, []byte{1, 1}, []byte{0xFF, 0xFF}, 164)
	f = append(f, r...)
	return f, []byte("ABCDEFGH")
}

// VH_C14_Seq: a script of CALLS calls (Seek / SeekRange / Read, all arguments symbolic)
// behaves like the same calls on the decompressed bytes.
func VH_C14_Seq() {
	payload := []byte{7, 0, 0, 0, 0, 9, 8, 0, 0, 0, 0, 0, 3, 4, 5, 0, 0}
	var file []byte
	if vParam("LAYOUT") >= 3 {
		file, payload = vhDeepFile(vParam("LAYOUT") - 3)
		if w := vhWalkFile(file); w.why != "" || len(w.leaves) != 4+vParam("LAYOUT")-3 || w.nodes != 3 {
			vFail("build/deep-file-is-not-spec-valid")
		}
	} else {
		file = vhBuildFile(payload)
	}
	size := int64(len(payload))
	r := &Reader{ReadSeeker: &vhRS{data: file}, CompressedSize: int64(len(file)), CodecReaders: []CodecReader{&vhCodecR{}}}
	pos, limit := int64(0), size // the model
	broken := false
	for k := 0; k < vParam("CALLS"); k++ {
		kind := vInt("kind")
		vAssume(vAnd(kind >= 0, kind <= 2))
		switch vConc(kind) {
		case 0:
			off := vI64("off")
			vAssume(vAnd(off >= -size-2, off <= size+2))
			wh := vInt("whence")
			vAssume(vAnd(wh >= 0, wh <= 3))
			wh = vConc(wh)
			got, err := r.Seek(off, wh)
			base := int64(0)
			switch wh {
			case io.SeekCurrent:
				base = pos
			case io.SeekEnd:
				base = size
			}
			want := base + off
			if wh > 2 {
				vCheck(err != nil, "seq/seek-invalid-whence-rejected")
			} else if want < 0 {
				vCheck(err != nil, "seq/seek-negative-rejected")
				if err != nil {
					broken = true // the real Reader keeps this error (sticky); the model stops here
				}
			} else {
				vCheck(err == nil, "seq/seek-error")
				vCheck(got == want, "seq/seek-position")
				pos, limit = want, size
			}
		case 1:
			lo, hi := vI64("lo"), vI64("hi")
			vAssume(vAnd(lo >= -1, lo <= size+2))
			vAssume(vAnd(hi >= -1, hi <= size+2))
			err := r.SeekRange(lo, hi)
			if lo > hi || lo < 0 {
				vCheck(err != nil, "seq/seekrange-bad-range-rejected")
				if err != nil {
					broken = true
				}
			} else {
				vCheck(err == nil, "seq/seekrange-error")
				pos, limit = lo, hi
				if limit > size {
					limit = size
				}
			}
		default:
			n := vInt("len")
			vAssume(vAnd(n >= 0, n <= vParam("MAXREAD")))
			buf := make([]byte, vConc(n))
			got, err := r.Read(buf)
			want := int64(0)
			if pos < limit {
				want = limit - pos
				if want > int64(len(buf)) {
					want = int64(len(buf))
				}
			}
			vCheck(int64(got) == want, "seq/read-count")
			if int64(got) == want {
				for i := int64(0); i < want; i++ {
					vCheck(buf[i] == payload[pos+i], "seq/read-bytes")
				}
			}
			if pos >= limit {
				vCheck(err == io.EOF, "seq/eof-at-the-end")
			} else if pos+want < limit {
				vCheck(err == nil, "seq/no-error-before-the-end")
			} else {
				vCheck(err == nil || err == io.EOF, "seq/nil-or-eof-when-reaching-the-end")
			}
			pos += want
		}
		if broken {
			break
		}
		vReach("seq/call")
	}
	if !broken {
		vCheck(r.Close() == nil, "seq/close")
		vCheck(r.Close() != nil, "seq/second-close-reports-closed")
	}
	vReach("seq/done")
}
