package rac

import "io"

// C14 (sequential half): rac.Reader with Concurrency == 0 against an in-memory model.

// vhBuildFile writes the concrete payload with the real Writer and the stub codec.
// LAYOUT 0: DChunkSize 4, index at end; 1: CChunkSize (2 data bytes), index at start, page 8;
// 2: DChunkSize 3 with a shared resource, index at end.
func vhBuildFile(payload []byte) []byte {
	faults := &vhFaults{}
	sink := &vhSink{f: faults}
	w := &Writer{Writer: sink, CodecWriter: &vhCodecW{}}
	switch vParam("LAYOUT") {
	case 0:
		w.DChunkSize = 4
	case 1:
		w.CChunkSize = 2 + vhFrame
		w.IndexLocation = IndexLocationAtStart
		w.TempFile = &vhTemp{f: faults}
		w.CPageSize = 8
	default:
		w.DChunkSize = 3
	}
	if _, err := w.Write(payload); err != nil {
		vFail("build/write")
	}
	if err := w.Close(); err != nil {
		vFail("build/close")
	}
	return sink.data
}

// VH_C14_Seq: a script of CALLS calls (Seek / SeekRange / Read, all arguments symbolic)
// behaves like the same calls on the decompressed bytes.
func VH_C14_Seq() {
	payload := []byte{7, 0, 0, 0, 0, 9, 8, 0, 0, 0, 0, 0, 3, 4, 5, 0, 0}
	file := vhBuildFile(payload)
	size := int64(len(payload))
	r := &Reader{ReadSeeker: &vhRS{data: file}, CompressedSize: int64(len(file)), CodecReaders: []CodecReader{&vhCodecR{}}}
	pos, limit := int64(0), size // the model
	broken := false
	for k := 0; k < vParam("CALLS"); k++ {
		kind := vInt("kind")
		vAssume(vAnd(kind >= 0, kind <= 2))
		switch vConc(kind) {
		case 0:
			off := vI64("off")
			vAssume(vAnd(off >= -size-2, off <= size+2))
			wh := vInt("whence")
			vAssume(vAnd(wh >= 0, wh <= 3))
			wh = vConc(wh)
			got, err := r.Seek(off, wh)
			base := int64(0)
			switch wh {
			case io.SeekCurrent:
				base = pos
			case io.SeekEnd:
				base = size
			}
			want := base + off
			if wh > 2 {
				vCheck(err != nil, "seq/seek-invalid-whence-rejected")
			} else if want < 0 {
				vCheck(err != nil, "seq/seek-negative-rejected")
				if err != nil {
					broken = true // the real Reader keeps this error (sticky); the model stops here
				}
			} else {
				vCheck(err == nil, "seq/seek-error")
				vCheck(got == want, "seq/seek-position")
				pos, limit = want, size
			}
		case 1:
			lo, hi := vI64("lo"), vI64("hi")
			vAssume(vAnd(lo >= -1, lo <= size+2))
			vAssume(vAnd(hi >= -1, hi <= size+2))
			err := r.SeekRange(lo, hi)
			if lo > hi || lo < 0 {
				vCheck(err != nil, "seq/seekrange-bad-range-rejected")
				if err != nil {
					broken = true
				}
			} else {
				vCheck(err == nil, "seq/seekrange-error")
				pos, limit = lo, hi
				if limit > size {
					limit = size
				}
			}
		default:
			n := vInt("len")
			vAssume(vAnd(n >= 0, n <= vParam("MAXREAD")))
			buf := make([]byte, vConc(n))
			got, err := r.Read(buf)
			want := int64(0)
			if pos < limit {
				want = limit - pos
				if want > int64(len(buf)) {
					want = int64(len(buf))
				}
			}
			vCheck(int64(got) == want, "seq/read-count")
			if int64(got) == want {
				for i := int64(0); i < want; i++ {
					vCheck(buf[i] == payload[pos+i], "seq/read-bytes")
				}
			}
			if pos >= limit {
				vCheck(err == io.EOF, "seq/eof-at-the-end")
			} else if pos+want < limit {
				vCheck(err == nil, "seq/no-error-before-the-end")
			} else {
				vCheck(err == nil || err == io.EOF, "seq/nil-or-eof-when-reaching-the-end")
			}
			pos += want
		}
		if broken {
			break
		}
		vReach("seq/call")
	}
	if !broken {
		vCheck(r.Close() == nil, "seq/close")
		vCheck(r.Close() != nil, "seq/second-close-reports-closed")
	}
	vReach("seq/done")
}
