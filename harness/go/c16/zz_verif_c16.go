package flatecut

import (
	"io"
)

type vhRecW struct {
	all []byte
}

func (w *vhRecW) Write(p []byte) (int, error) {
	w.all = append(w.all, p...)
	return len(p), nil
}

// vhStream builds the stream under test: KIND selects what is symbolic.
//
//	0: all N bytes symbolic
//	1: first block header forced to "stored, not final" so that multi-block streams are reached quickly
//	2: first byte's low 3 bits forced to "fixed Huffman"
func vhStream() []byte {
	n := vParam("N")
	b := vBytes("s", n)
	switch vParam("KIND") {
	case 1:
		vAssume(b[0]&7 == 0)
	case 2:
		vAssume(b[0]&6 == 2)
	case 3:
		vAssume(b[0]&7 == 3)
	}
	return b
}

// VH_C16_Cut: for every valid stream of N bytes and every maxEncodedLen, Cut's result is a
// valid stream within the limit that decodes to a prefix of the original's output.
func VH_C16_Cut() {
	enc := vhStream()
	orig := append([]byte(nil), enc...)
	ref := vhInflate(orig, false)
	vAssume(ref.status == vhOK)
	vAssume(ref.used == len(orig))
	maxLen := vInt("max")
	vAssume(vAnd(maxLen >= 0, maxLen <= len(enc)+2))
	var w *vhRecW
	var wi io.Writer
	if vParam("W") == 1 {
		w = &vhRecW{}
		wi = w
	}
	encodedLen, decodedLen, err := Cut(wi, enc, maxLen)
	if err != nil {
		vCheck(vOr(maxLen < SmallestValidMaxEncodedLen, err != errMaxEncodedLenTooSmall), "cut/too-small-only-below-2")
		vCheck(err != errInternalInconsistentDecodedLen && err != errInternalNoProgress && err != errInternalSomeProgress && err != errInternalReplaceWithSingleBlock, "cut/internal-error-escapes")
		vCheck(maxLen < SmallestValidMaxEncodedLen, "cut/valid-input-rejected")
		vReach("cut/error")
		return
	}
	vCheck(encodedLen <= maxLen, "cut/within-max")
	vCheck(vAnd(encodedLen >= 0, encodedLen <= len(enc)), "cut/within-buffer")
	vCheck(decodedLen >= 0, "cut/decodedLen-nonneg")
	el := vConc(encodedLen)
	if el < 0 || el > len(enc) {
		return
	}
	got := vhInflate(enc[:el], true)
	vCheck(got.status == vhOK, "cut/result-is-valid-deflate")
	if got.status != vhOK {
		return
	}
	vCheck(got.used == el, "cut/result-has-no-trailing-bytes")
	vCheck(len(got.out) == decodedLen, "cut/decodedLen-is-result-length")
	vCheck(len(got.out) <= len(ref.out), "cut/not-longer-than-original")
	if len(got.out) <= len(ref.out) {
		for i := range got.out {
			vCheck(got.out[i] == ref.out[i], "cut/prefix-bytes")
		}
	}
	if maxLen >= len(orig) {
		vCheck(len(got.out) == len(ref.out), "cut/everything-kept-when-limit-is-not-binding")
	}
	if w != nil {
		vCheck(len(w.all) == len(got.out), "cut/writer-length")
		if len(w.all) == len(got.out) {
			for i := range got.out {
				vCheck(w.all[i] == got.out[i], "cut/writer-bytes")
			}
		}
	}
	vReach("cut/done")
}

// VH_C16_Robust: arbitrary bytes (no validity assumption): no panic, and a nil error still
// comes with lengths inside the limit and the buffer.
func VH_C16_Robust() {
	enc := vhStream()
	maxLen := vInt("max")
	vAssume(vAnd(maxLen >= -1, maxLen <= len(enc)+2))
	encodedLen, decodedLen, err := Cut(nil, enc, maxLen)
	if err == nil {
		vCheck(encodedLen <= maxLen, "robust/within-max")
		vCheck(vAnd(encodedLen >= 0, encodedLen <= len(enc)), "robust/within-buffer")
		vCheck(decodedLen >= 0, "robust/decodedLen-nonneg")
	} else {
		vCheck(vAnd(encodedLen == 0, decodedLen == 0), "robust/zero-lengths-on-error")
	}
	vReach("robust/done")
}
