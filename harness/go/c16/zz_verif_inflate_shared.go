package flatecut

import (
	"io"
)

// Shared by the flatecut and zlibcut harnesses (the package clause is rewritten per target). The oracle is vhInflate, an RFC 1951 reference decoder written
// independently of the code under test (bit-at-a-time canonical Huffman decoding in
// the style of zlib's puff.c). It is executed symbolically on the same bytes as Cut.

const (
	vhOK        = 0
	vhTruncated = 1 // ran out of input
	vhCorrupt   = 2
	vhTooLong   = 3 // output limit of the harness reached (outside the bound)
)

type vhBitReader struct {
	data []byte
	pos  int // bit position (concrete per path)
}

func (r *vhBitReader) bit() int {
	if r.pos>>3 >= len(r.data) {
		return -1
	}
	b := int(r.data[r.pos>>3]>>uint(r.pos&7)) & 1
	r.pos++
	return b
}

func (r *vhBitReader) bits(n int) int {
	v := 0
	for i := 0; i < n; i++ {
		b := r.bit()
		if b < 0 {
			return -1
		}
		v |= b << uint(i)
	}
	return v
}

type vhHuff struct {
	count  [16]int
	symbol [320]int
	n      int
}

// build returns 0 for a complete code, >0 for an incomplete one, <0 for over-subscribed.
func (h *vhHuff) build(lengths []int) int {
	for i := range h.count {
		h.count[i] = 0
	}
	for _, l := range lengths {
		h.count[l]++
	}
	h.n = len(lengths)
	if h.count[0] == len(lengths) {
		return 0 // no codes: complete, but decoding anything fails
	}
	left := 1
	for l := 1; l <= 15; l++ {
		left <<= 1
		left -= h.count[l]
		if left < 0 {
			return left
		}
	}
	var offs [16]int
	for l := 1; l < 15; l++ {
		offs[l+1] = offs[l] + h.count[l]
	}
	for s, l := range lengths {
		if l != 0 {
			h.symbol[offs[l]] = s
			offs[l]++
		}
	}
	return left
}

// decode returns the symbol, -1 when the input ends, -2 when no code matches.
func (h *vhHuff) decode(r *vhBitReader) int {
	code, first, index := 0, 0, 0
	for l := 1; l <= 15; l++ {
		b := r.bit()
		if b < 0 {
			return -1
		}
		code |= b
		count := h.count[l]
		if code-count < first {
			return h.symbol[index+(code-first)]
		}
		index += count
		first += count
		first <<= 1
		code <<= 1
	}
	return -2
}

var vhLBase = [29]int{3, 4, 5, 6, 7, 8, 9, 10, 11, 13, 15, 17, 19, 23, 27, 31, 35, 43, 51, 59, 67, 83, 99, 115, 131, 163, 195, 227, 258}
var vhLExt = [29]int{0, 0, 0, 0, 0, 0, 0, 0, 1, 1, 1, 1, 2, 2, 2, 2, 3, 3, 3, 3, 4, 4, 4, 4, 5, 5, 5, 5, 0}
var vhDBase = [30]int{1, 2, 3, 4, 5, 7, 9, 13, 17, 25, 33, 49, 65, 97, 129, 193, 257, 385, 513, 769, 1025, 1537, 2049, 3073, 4097, 6145, 8193, 12289, 16385, 24577}
var vhDExt = [30]int{0, 0, 0, 0, 1, 1, 2, 2, 3, 3, 4, 4, 5, 5, 6, 6, 7, 7, 8, 8, 9, 9, 10, 10, 11, 11, 12, 12, 13, 13}
var vhOrder = [19]int{16, 17, 18, 0, 8, 7, 9, 6, 10, 5, 11, 4, 12, 3, 13, 2, 14, 1, 15}

type vhInflated struct {
	out    []byte
	status int
	used   int // bytes consumed, counting a partly used last byte
	blocks int
}

const vhOutLimit = 700

// vhInflate decodes a complete DEFLATE stream. Symbolic quantities that decide the
// shape of the output (copy lengths and distances, stored lengths) are case-split.
func vhInflate(data []byte, allowDynamic bool) vhInflated {
	r := &vhBitReader{data: data}
	res := vhInflated{}
	var lh, dh vhHuff
	for {
		final := r.bits(1)
		typ := r.bits(2)
		if final < 0 || typ < 0 {
			res.status = vhTruncated
			return res
		}
		res.blocks++
		typ = vConc(typ)
		switch typ {
		case 0:
			r.pos = (r.pos + 7) &^ 7
			ln := r.bits(16)
			nln := r.bits(16)
			if ln < 0 || nln < 0 {
				res.status = vhTruncated
				return res
			}
			if ln != nln^0xFFFF {
				res.status = vhCorrupt
				return res
			}
			avail := len(data) - r.pos>>3
			if ln > avail {
				// everything that is there is copied, then the input ends
				for i := 0; i < avail; i++ {
					res.out = append(res.out, data[r.pos>>3+i])
				}
				res.status = vhTruncated
				return res
			}
			n := vConc(ln)
			if len(res.out)+n > vhOutLimit {
				res.status = vhTooLong
				return res
			}
			for i := 0; i < n; i++ {
				res.out = append(res.out, data[r.pos>>3+i])
			}
			r.pos += 8 * n
		case 1, 2:
			if typ == 1 {
				var l [320]int
				for i := 0; i < 144; i++ {
					l[i] = 8
				}
				for i := 144; i < 256; i++ {
					l[i] = 9
				}
				for i := 256; i < 280; i++ {
					l[i] = 7
				}
				for i := 280; i < 288; i++ {
					l[i] = 8
				}
				lh.build(l[:288])
				for i := 0; i < 30; i++ {
					l[i] = 5
				}
				dh.build(l[:30])
			} else {
				if !allowDynamic {
					vAssume(false)
				}
				st := vhDynamic(r, &lh, &dh)
				if st != vhOK {
					res.status = st
					return res
				}
			}
			for {
				sym := lh.decode(r)
				if sym == -1 {
					res.status = vhTruncated
					return res
				}
				if sym < 0 {
					res.status = vhCorrupt
					return res
				}
				if sym < 256 {
					if len(res.out) >= vhOutLimit {
						res.status = vhTooLong
						return res
					}
					res.out = append(res.out, byte(sym))
					continue
				}
				if sym == 256 {
					break
				}
				sym = vConc(sym) - 257
				if sym >= 29 {
					res.status = vhCorrupt
					return res
				}
				eb := r.bits(vhLExt[sym])
				if eb < 0 {
					res.status = vhTruncated
					return res
				}
				length := vhLBase[sym] + vConc(eb)
				ds := dh.decode(r)
				if ds == -1 {
					res.status = vhTruncated
					return res
				}
				if ds < 0 {
					res.status = vhCorrupt
					return res
				}
				ds = vConc(ds)
				if ds >= 30 {
					res.status = vhCorrupt
					return res
				}
				db := r.bits(vhDExt[ds])
				if db < 0 {
					res.status = vhTruncated
					return res
				}
				dist := vhDBase[ds] + db
				if dist > len(res.out) {
					res.status = vhCorrupt
					return res
				}
				dist = vConc(dist)
				if len(res.out)+length > vhOutLimit {
					res.status = vhTooLong
					return res
				}
				for i := 0; i < length; i++ {
					res.out = append(res.out, res.out[len(res.out)-dist])
				}
			}
		default:
			res.status = vhCorrupt
			return res
		}
		if vConc(final) == 1 {
			break
		}
	}
	res.used = (r.pos + 7) >> 3
	return res
}

func vhDynamic(r *vhBitReader, lh, dh *vhHuff) int {
	_, _, st := vhDynamicLengths(r, lh, dh)
	return st
}

func vhDynamicLengths(r *vhBitReader, lh, dh *vhHuff) ([]int, []int, int) {
	st, ll, dl := vhDynamicLengths1(r, lh, dh)
	return ll, dl, st
}

func vhDynamicLengths1(r *vhBitReader, lh, dh *vhHuff) (int, []int, []int) {
	nlen := r.bits(5)
	ndist := r.bits(5)
	ncode := r.bits(4)
	if nlen < 0 || ndist < 0 || ncode < 0 {
		return vhTruncated, nil, nil
	}
	nlen, ndist, ncode = vConc(nlen)+257, vConc(ndist)+1, vConc(ncode)+4
	if nlen > 286 || ndist > 30 {
		return vhCorrupt, nil, nil
	}
	var lengths [320]int
	for i := 0; i < ncode; i++ {
		v := r.bits(3)
		if v < 0 {
			return vhTruncated, nil, nil
		}
		lengths[vhOrder[i]] = vConc(v)
	}
	var ch vhHuff
	if ch.build(lengths[:19]) != 0 {
		return vhCorrupt, nil, nil
	}
	for i := range lengths {
		lengths[i] = 0
	}
	for i := 0; i < nlen+ndist; {
		sym := ch.decode(r)
		if sym == -1 {
			return vhTruncated, nil, nil
		}
		if sym < 0 {
			return vhCorrupt, nil, nil
		}
		sym = vConc(sym)
		if sym < 16 {
			lengths[i] = sym
			i++
			continue
		}
		prev, rep := 0, 0
		switch sym {
		case 16:
			if i == 0 {
				return vhCorrupt, nil, nil
			}
			prev = lengths[i-1]
			rep = r.bits(2)
			if rep >= 0 {
				rep = 3 + vConc(rep)
			}
		case 17:
			rep = r.bits(3)
			if rep >= 0 {
				rep = 3 + vConc(rep)
			}
		default:
			rep = r.bits(7)
			if rep >= 0 {
				rep = 11 + vConc(rep)
			}
		}
		if rep < 0 {
			return vhTruncated, nil, nil
		}
		if i+rep > nlen+ndist {
			return vhCorrupt, nil, nil
		}
		for ; rep > 0; rep-- {
			lengths[i] = prev
			i++
		}
	}
	if lengths[256] == 0 {
		return vhCorrupt, nil, nil
	}
	if e := lh.build(lengths[:nlen]); e < 0 || (e > 0 && nlen-lh.count[0] != 1) {
		return vhCorrupt, nil, nil
	}
	if e := dh.build(lengths[nlen : nlen+ndist]); e < 0 || (e > 0 && ndist-dh.count[0] != 1) {
		return vhCorrupt, nil, nil
	}
	return vhOK, append([]int(nil), lengths[:nlen]...), append([]int(nil), lengths[nlen:nlen+ndist]...)
}

// ---- model of compress/flate.NewReader (symbolic run only, via Config.Replace) ----

type vhFlateReader struct {
	res  vhInflated
	off  int
	done bool
}

var vhErrCorrupt = io.ErrNoProgress // any error other than io.EOF / io.ErrUnexpectedEOF

func vhFlateNewReader(r io.Reader) io.ReadCloser {
	// all callers hand over a *bytes.Reader positioned at its start
	type lener interface{ Len() int }
	n := vConc(r.(lener).Len())
	buf := make([]byte, n)
	if n > 0 {
		k, _ := r.Read(buf)
		if k != n {
			vFail("model/bytes.Reader-short-read")
		}
	}
	return &vhFlateReader{res: vhInflate(buf, true)}
}

// Read returns everything decoded before the error, then the error (compress/flate
// flushes what is left when an error occurs).
func (f *vhFlateReader) Read(p []byte) (int, error) {
	if f.res.status == vhTooLong {
		vAssume(false)
	}
	n := copy(p, f.res.out[f.off:])
	f.off += n
	if f.off < len(f.res.out) {
		return n, nil
	}
	var err error
	switch f.res.status {
	case vhOK:
		err = io.EOF
	case vhTruncated:
		err = io.ErrUnexpectedEOF
	default:
		err = vhErrCorrupt
	}
	// compress/flate hands over the pending error together with the last data
	return n, err
}

func (f *vhFlateReader) Close() error {
	switch f.res.status {
	case vhOK:
		return nil
	case vhTruncated:
		if f.off >= len(f.res.out) {
			return io.ErrUnexpectedEOF
		}
		return nil
	}
	return nil
}

