package flatecut


// Generator of valid DEFLATE streams: every valid stream is the encoding of a sequence of
// blocks and tokens, so quantifying over token sequences (shape case-split, every value
// symbolic) quantifies over valid streams without enumerating the invalid ones.

type vhGen struct {
	bytes []byte
	nbits int
	out   []byte // what the stream must decode to
}

func (g *vhGen) putBit(b int) {
	if g.nbits&7 == 0 {
		g.bytes = append(g.bytes, 0)
	}
	g.bytes[g.nbits>>3] |= byte(b&1) << uint(g.nbits&7)
	g.nbits++
}

// put appends the low n bits of v, least significant first (header fields, extra bits).
func (g *vhGen) put(v, n int) {
	for i := 0; i < n; i++ {
		g.putBit(v >> uint(i))
	}
}

// putCode appends an n-bit Huffman code, most significant bit first.
func (g *vhGen) putCode(code, n int) {
	for i := n - 1; i >= 0; i-- {
		g.putBit(code >> uint(i))
	}
}

func (g *vhGen) align() {
	for g.nbits&7 != 0 {
		g.putBit(int(vU8("pad"))) // padding bits are arbitrary
	}
}

// vhCode is a canonical Huffman code derived from code lengths (RFC 1951 3.2.2).
type vhCode struct {
	lengths []int
	code    []int
}

func vhMakeCode(lengths []int) *vhCode {
	var blCount, next [16]int
	for _, l := range lengths {
		blCount[l]++
	}
	blCount[0] = 0
	c := 0
	for b := 1; b <= 15; b++ {
		c = (c + blCount[b-1]) << 1
		next[b] = c
	}
	vc := &vhCode{lengths: lengths, code: make([]int, len(lengths))}
	for s, l := range lengths {
		if l != 0 {
			vc.code[s] = next[l]
			next[l]++
		}
	}
	return vc
}

func vhFixedLengths() ([]int, []int) {
	l := make([]int, 288)
	for i := range l {
		switch {
		case i < 144:
			l[i] = 8
		case i < 256:
			l[i] = 9
		case i < 280:
			l[i] = 7
		default:
			l[i] = 8
		}
	}
	d := make([]int, 30)
	for i := range d {
		d[i] = 5
	}
	return l, d
}

// a concrete dynamic-Huffman block header produced by compress/flate (HuffmanOnly level)
// for "abcabcabcabcxyzxyzabcabc"; the block body that follows it here is symbolic.
var vhDynStream = []byte{0x04, 0xc0, 0x01, 0x01, 0x00, 0x00, 0x04, 0xc0, 0xb0, 0xac, 0xff, 0x4b, 0x20, 0xbd, 0x61, 0x18, 0x86, 0xcd, 0xde, 0xec, 0x61, 0xd8, 0x07, 0x00, 0x00, 0xff, 0xff}

// putSymbol emits one literal/length symbol chosen symbolically among the symbols of one
// code length (so that the bit position stays concrete) and returns it.
func (g *vhGen) putSymbolOfLength(c *vhCode, lo, hi, length int) int {
	// symbols in [lo,hi) with this code length form runs of consecutive codes; pick one run
	first := -1
	n := 0
	for s := lo; s < hi; s++ {
		if c.lengths[s] == length {
			if first < 0 {
				first = s
			}
			if s == first+n {
				n++
			}
		}
	}
	if first < 0 {
		vAssume(false)
	}
	k := vInt("symidx")
	vAssume(vAnd(k >= 0, k < n))
	g.putCode(c.code[first]+k, length)
	return first + k
}

// genBlock appends one block; returns false when the shape is not available.
func (g *vhGen) genBlock(final int, maxTokens int, allowDyn bool, fill int) {
	kind := vInt("blockkind")
	lo := 0
	hi := 1
	if allowDyn {
		hi = 2
	}
	vAssume(vAnd(kind >= lo, kind <= hi))
	kind = vConc(kind)
	g.putBit(final)
	g.put(kind, 2)
	if kind == 0 {
		g.align()
		n := vInt("storedlen")
		vAssume(vAnd(n >= 0, n <= maxTokens))
		n = vConc(n)
		g.put(n, 16)
		g.put(n^0xFFFF, 16)
		for i := 0; i < n; i++ {
			b := vU8("data")
			g.bytes = append(g.bytes, b)
			g.nbits += 8
			g.out = append(g.out, b)
		}
		return
	}
	var lc, dc *vhCode
	if kind == 1 {
		l, d := vhFixedLengths()
		lc, dc = vhMakeCode(l), vhMakeCode(d)
	} else {
		// copy the concrete header bits of vhDynStream (after its 3 block-header bits)
		r := &vhBitReader{data: vhDynStream, pos: 3}
		var lh, dh vhHuff
		ll, dl, st := vhDynamicLengths(r, &lh, &dh)
		if st != vhOK {
			vFail("gen/dynamic-header-rejected-by-reference")
			vAssume(false)
		}
		for p := 3; p < r.pos; p++ {
			g.putBit(int(vhDynStream[p>>3]>>uint(p&7)) & 1)
		}
		lc, dc = vhMakeCode(ll), vhMakeCode(dl)
	}
	if fill > 0 && kind == 1 {
		// a run of 0..fill nine-bit literals slides the following block header over every bit alignment
		f := vInt("fill")
		vAssume(vAnd(f >= 0, f <= fill))
		f = vConc(f)
		for i := 0; i < f; i++ {
			// concrete values: the filler's only role is to shift the alignment
			s := 200 + i
			g.putCode(lc.code[s], lc.lengths[s])
			g.out = append(g.out, byte(s))
		}
	}
	nt := vInt("ntokens")
	vAssume(vAnd(nt >= 0, nt <= maxTokens))
	nt = vConc(nt)
	for t := 0; t < nt; t++ {
		tk := vInt("tokenkind")
		vAssume(vAnd(tk >= 0, tk <= 1))
		if len(g.out) == 0 {
			vAssume(tk == 0)
		}
		if vConc(tk) == 0 {
			// literal: choose its code length, then the symbol among those of that length
			ln := vInt("litlen")
			vAssume(vAnd(ln >= 1, ln <= 15))
			ln = vConc(ln)
			s := g.putSymbolOfLength(lc, 0, 256, ln)
			g.out = append(g.out, byte(s))
			continue
		}
		// length/distance pair; the length symbol is drawn from a short list of representatives
		// (LENSYMS: 0 = {257}, 1 = {257, 265, 285}, 2 = every symbol 257..285)
		ls := vInt("lensym")
		switch vParam("LENSYMS") {
		case 0:
			vAssume(ls == 257)
		case 1:
			vAssume(vOr(ls == 257, vOr(ls == 265, ls == 285)))
		default:
			vAssume(vAnd(ls >= 257, ls <= 285))
		}
		ls = vConc(ls)
		if ls >= len(lc.lengths) || lc.lengths[ls] == 0 {
			vAssume(false)
		}
		g.putCode(lc.code[ls], lc.lengths[ls])
		eb := vInt("lenextra")
		vAssume(vAnd(eb >= 0, eb < 1<<uint(vhLExt[ls-257])))
		g.put(eb, vhLExt[ls-257])
		length := vhLBase[ls-257] + vConc(eb)
		ds := vInt("distsym")
		vAssume(vAnd(ds >= 0, ds < len(dc.lengths)))
		vAssume(ds <= 5) // distances 1..8 (longer ones need more output than the bound produces)
		ds = vConc(ds)
		if dc.lengths[ds] == 0 || vhDBase[ds] > len(g.out) {
			vAssume(false)
		}
		g.putCode(dc.code[ds], dc.lengths[ds])
		db := vInt("distextra")
		vAssume(vAnd(db >= 0, db < 1<<uint(vhDExt[ds])))
		vAssume(vhDBase[ds]+db <= len(g.out))
		g.put(db, vhDExt[ds])
		dist := vhDBase[ds] + vConc(db)
		for i := 0; i < length; i++ {
			g.out = append(g.out, g.out[len(g.out)-dist])
		}
	}
	g.putCode(lc.code[256], lc.lengths[256])
}

