package flatecut

import "io"

// VH_C16_CutGen: every stream of up to BLOCKS blocks with up to TOKENS tokens each.
func VH_C16_CutGen() {
	g := &vhGen{}
	nb := vInt("nblocks")
	vAssume(vAnd(nb >= 1, nb <= vParam("BLOCKS")))
	nb = vConc(nb)
	tail := vParam("TAIL")
	for b := 0; b < nb; b++ {
		final := 0
		if b == nb-1 && tail == 0 {
			final = 1
		}
		fill, toks := 0, vParam("TOKENS")
		if b == 0 && vParam("FILL9") > 0 {
			fill, toks = vParam("FILL9"), 0
		}
		g.genBlock(final, toks, vParam("DYN") == 1, fill)
	}
	if tail > 0 {
		// a final stored block of TAIL bytes makes the stream long enough for the 8-byte fast path
		// of huffman.decode to run on the blocks before it
		g.putBit(1)
		g.put(0, 2)
		g.align()
		g.put(tail, 16)
		g.put(tail^0xFFFF, 16)
		for i := 0; i < tail; i++ {
			b := byte(0xD0 + i) // concrete: the tail only lengthens the stream
			g.bytes = append(g.bytes, b)
			g.nbits += 8
			g.out = append(g.out, b)
		}
	}
	g.align()
	if len(g.out) > 600 {
		vAssume(false)
	}
	enc := g.bytes
	orig := append([]byte(nil), enc...)
	if vParam("SELFCHECK") == 1 {
		ref := vhInflate(orig, true)
		vCheck(ref.status == vhOK, "gen/reference-accepts-generated-stream")
		vCheck(ref.used == len(orig), "gen/reference-consumes-everything")
		vCheck(len(ref.out) == len(g.out), "gen/reference-output-length")
		if len(ref.out) == len(g.out) {
			for i := range g.out {
				vCheck(ref.out[i] == g.out[i], "gen/reference-output-bytes")
			}
		}
	}
	maxLen := vInt("max")
	vAssume(vAnd(maxLen >= SmallestValidMaxEncodedLen, maxLen <= len(enc)+1))
	var w *vhRecW
	var wi io.Writer
	if vParam("W") == 1 {
		w = &vhRecW{}
		wi = w
	}
	encodedLen, decodedLen, err := Cut(wi, enc, maxLen)
	vCheck(err == nil, "cutgen/valid-input-rejected")
	if err != nil {
		return
	}
	vCheck(encodedLen <= maxLen, "cutgen/within-max")
	vCheck(vAnd(encodedLen >= 0, encodedLen <= len(enc)), "cutgen/within-buffer")
	el := vConc(encodedLen)
	if el < 0 || el > len(enc) {
		return
	}
	got := vhInflate(enc[:el], true)
	vCheck(got.status == vhOK, "cutgen/result-is-valid-deflate")
	if got.status != vhOK {
		return
	}
	vCheck(got.used == el, "cutgen/result-has-no-trailing-bytes")
	vCheck(len(got.out) == decodedLen, "cutgen/decodedLen-is-result-length")
	vCheck(len(got.out) <= len(g.out), "cutgen/not-longer-than-original")
	if len(got.out) <= len(g.out) {
		for i := range got.out {
			vCheck(got.out[i] == g.out[i], "cutgen/prefix-bytes")
		}
	}
	if maxLen >= len(orig) {
		vCheck(len(got.out) == len(g.out), "cutgen/everything-kept-when-limit-is-not-binding")
	}
	if w != nil {
		vCheck(len(w.all) == len(got.out), "cutgen/writer-length")
		if len(w.all) == len(got.out) {
			for i := range got.out {
				vCheck(w.all[i] == got.out[i], "cutgen/writer-bytes")
			}
		}
	}
	vReach("cutgen/done")
}
