package zlibcut

import "io"

type vhRecW struct {
	all []byte
}

func (w *vhRecW) Write(p []byte) (int, error) {
	w.all = append(w.all, p...)
	return len(p), nil
}

// vhAdler is Adler-32 (RFC 1950) with the modulo applied once at the end, which is exact
// for up to 5552 bytes (the sums cannot wrap 32 bits before that).
func vhAdler(b []byte) uint32 {
	if len(b) > 5552 {
		vAssume(false)
	}
	s1, s2 := uint32(1), uint32(0)
	for _, x := range b {
		s1 += uint32(x)
		s2 += s1
	}
	return (s2%65521)<<16 | s1%65521
}

// VH_C16_ZlibCut: zlib framing around every generated DEFLATE stream: header (and DICTID)
// kept, the cut DEFLATE data valid and a prefix, the Adler-32 of the prefix in the 4 bytes
// that follow, lengths account for header and trailer.
func VH_C16_ZlibCut() {
	cmf, flg := vU8("cmf"), vU8("flg")
	vAssume((uint32(cmf)<<8|uint32(flg))%31 == 0)
	vAssume(cmf&0x0F == 8)
	hdr := []byte{cmf, flg}
	if flg&0x20 != 0 {
		hdr = append(hdr, vBytes("dictid", 4)...)
	}
	g := &vhGen{}
	nb := vInt("nblocks")
	vAssume(vAnd(nb >= 1, nb <= vParam("BLOCKS")))
	nb = vConc(nb)
	for b := 0; b < nb; b++ {
		final := 0
		if b == nb-1 {
			final = 1
		}
		g.genBlock(final, vParam("TOKENS"), vParam("DYN") == 1, 0)
	}
	g.align()
	enc := append(append(append([]byte(nil), hdr...), g.bytes...), vBytes("adler", 4)...)
	orig := append([]byte(nil), enc...)
	maxLen := vInt("max")
	vAssume(vAnd(maxLen >= 0, maxLen <= len(enc)+1))
	var w *vhRecW
	var wi io.Writer
	if vParam("W") == 1 {
		w = &vhRecW{}
		wi = w
	}
	encodedLen, decodedLen, err := Cut(wi, enc, maxLen)
	if err != nil {
		// a valid stream is only refused when the limit cannot hold header + smallest stream + trailer
		vCheck(maxLen < len(hdr)+2+4, "zlib/valid-input-rejected")
		vReach("zlib/error")
		return
	}
	vCheck(encodedLen <= maxLen, "zlib/within-max")
	vCheck(vAnd(encodedLen >= len(hdr)+4, encodedLen <= len(enc)), "zlib/within-buffer")
	el := vConc(encodedLen)
	if el < len(hdr)+4 || el > len(enc) {
		return
	}
	for i := range hdr {
		vCheck(enc[i] == orig[i], "zlib/header-kept")
	}
	got := vhInflate(enc[len(hdr):el-4], true)
	vCheck(got.status == vhOK, "zlib/payload-is-valid-deflate")
	if got.status != vhOK {
		return
	}
	vCheck(got.used == el-4-len(hdr), "zlib/payload-has-no-trailing-bytes")
	vCheck(len(got.out) == decodedLen, "zlib/decodedLen-is-result-length")
	vCheck(len(got.out) <= len(g.out), "zlib/not-longer-than-original")
	if len(got.out) <= len(g.out) {
		for i := range got.out {
			vCheck(got.out[i] == g.out[i], "zlib/prefix-bytes")
		}
	}
	a := vhAdler(got.out)
	vCheck(enc[el-4] == byte(a>>24) && enc[el-3] == byte(a>>16) && enc[el-2] == byte(a>>8) && enc[el-1] == byte(a), "zlib/adler32-of-prefix")
	if maxLen >= len(orig) {
		vCheck(len(got.out) == len(g.out), "zlib/everything-kept-when-limit-is-not-binding")
	}
	if w != nil {
		vCheck(len(w.all) == len(got.out), "zlib/writer-length")
		if len(w.all) == len(got.out) {
			for i := range got.out {
				vCheck(w.all[i] == got.out[i], "zlib/writer-bytes")
			}
		}
	}
	vReach("zlib/done")
}
