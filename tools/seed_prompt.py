#!/usr/bin/env python3
"""Prints the prompt given to an independent sub-agent that seeds a property-breaking change.
usage: seed_prompt.py <ID> <worktree> [hint]"""
import json,sys
pid,wt=sys.argv[1],sys.argv[2]
hint=sys.argv[3] if len(sys.argv)>3 else ""
for l in open('/verif/properties.jsonl'):
    d=json.loads(l)
    if d['id']==pid: break
else: sys.exit("no such property")
print(f"""You are helping evaluate a verification effort for the open-source project google/wuffs (a Go-implemented compiler for the Wuffs language plus Go codec libraries). You have your own scratch git worktree of the repository at {wt} . Work ONLY inside {wt} (never touch /repo or /verif, do not read anything under /verif).

Here is a semantic property that the code is supposed to satisfy:

  Title: {d['title']}
  Statement: {d['statement']}
  Quantifier: {d['quantifier']['text']}
  Why the existing tests cannot settle it: {d['why_tests_cant']}
  Code anchors: {json.dumps(d['anchors']['files'])}
  Mechanisms: {json.dumps(d['anchors']['mechanism'])}

Your task: make a small, realistic change to the google/wuffs source in {wt} (the kind of slip a maintainer could plausibly make: an off-by-one, a wrong corner case, a dropped update, a swapped operand, a mis-ordered step, two cooperating sites that each look fine alone) that BREAKS this property, while:
  1. the repository still compiles: `cd {wt} && go build ./... `
  2. the existing test suite still passes, unedited: `cd {wt} && go test -vet=off -count=1 ./lang/... ./lib/...` (all packages must pass; do not modify or delete any existing *_test.go file or test data);
  3. the breakage needs something SPECIFIC to manifest (an unusual input, a boundary value, a particular multi-step sequence of operations, a fault at a particular point) rather than being exposed at once by ordinary use.
{hint}
Also write a demonstration: a new Go test file (or small program) that FAILS with your change applied and PASSES on the original code. Put the demonstration in a new file (e.g. a new zz_demo_test.go in the relevant package directory). Verify both directions yourself: run it with your change (must fail), then save your source change with `git diff -- <changed source files> > /var/tmp/<unique-name>.diff`, revert it with `git apply -R`, run the demo again (must pass), then re-apply the diff. Do NOT use `git stash` (the stash is shared with other worktrees of this repository).

Environment notes: no network; use `export GOFLAGS=-mod=mod GOPROXY=off GOSUMDB=off GOTOOLCHAIN=local` before go commands; if go.mod/go.sum get rewritten by the go tool, restore them with `git checkout go.mod go.sum` before producing the diff. Do not commit. Keep the change minimal (a few lines).

When done, produce two files inside {wt}:
  - {wt}/SEED_patch.diff : output of `git diff` for the SOURCE change only (not the demo file)
  - {wt}/SEED_demo_path.txt : the relative path(s) of your demonstration file(s)
and reply with: a one-paragraph description of the change, what specific condition is needed for it to manifest, the exact commands you ran, and their outcomes (existing tests pass with change: yes/no; demo fails with change: yes/no; demo passes without change: yes/no). If you cannot find such a change after a serious attempt, say so plainly.""")
