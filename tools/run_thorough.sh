#!/bin/bash
# Runs the thorough tier of the given properties from a snapshot (vp run): builds vcheck there,
# writes evidence into ./ev-thorough (never /verif/evidence) and prints one summary line each.
export GOFLAGS=-mod=mod GOPROXY=off GOSUMDB=off GOTOOLCHAIN=local
(cd engine && go build -o ../bin/vcheck ./cmd/vcheck) || exit 2
mkdir -p ev-thorough
for id in "$@"; do
  start=$(date +%s)
  VERIF_EVIDENCE_DIR=$PWD/ev-thorough ./bin/vcheck $id --tier thorough --workers 8 > ev-thorough/$id.log 2>&1
  code=$?
  echo "THOROUGH $id exit=$code wall=$(( $(date +%s) - start ))s $(grep '^property' ev-thorough/$id.log | tail -1)"
  grep -E "^VIOLATION|^ENGINE-ERROR" ev-thorough/$id.log | cut -c1-300 | head -5
done
