#!/bin/bash
# usage: try_seed.sh <worktree-with-change-applied> <ID> [vcheck args...]
# Runs a check against a scratch worktree (VERIF_REPO) without touching /repo or /verif/evidence.
wt=$1; id=$2; shift 2
ev=/var/tmp/seed-evidence/$(basename $wt); mkdir -p $ev
VERIF_REPO=$wt VERIF_EVIDENCE_DIR=$ev /verif/bin/vcheck $id --tier quick "$@"
echo "exit=$?"
