#!/bin/bash
# usage: eval_seed.sh <seed-name> <property-id> [tier] [only-harness-substring]
# Applies /verif/seeded/<seed-name>/patch.diff to a fresh scratch worktree of /repo, runs the property's
# check against it (VERIF_REPO), records the outcome in meta.json, removes the worktree.
name=$1; id=$2; tier=${3:-quick}; only=${4:-}
wt=/tmp/evalseed-$name-$$
git -C /repo worktree add --detach $wt HEAD >/dev/null 2>&1 || exit 2
git -C $wt apply /verif/seeded/$name/patch.diff || { echo "patch does not apply"; git -C /repo worktree remove --force $wt; exit 2; }
ev=/var/tmp/seed-evidence/$name; mkdir -p $ev
log=/verif/seeded/$name/check_$tier.log
VERIF_REPO=$wt VERIF_EVIDENCE_DIR=$ev /verif/bin/vcheck $id --tier $tier ${only:+--only $only} > $log.full 2>&1; code=$?
grep -E "^VIOLATION|^  harness=|^property|^KNOWN|^ENGINE-ERROR" $log.full | cut -c1-400 | head -40 > $log; rm -f $log.full
git -C /repo worktree remove --force $wt
python3 - <<PY
import json
p="/verif/seeded/$name/meta.json"; m=json.load(open(p))
m.setdefault("checks",{})["$id/$tier"]={"cmd":"VERIF_REPO=<worktree with patch> /verif/bin/vcheck $id --tier $tier ${only:+--only $only}","exit":$code,"detected":$code==1,
  "violations":[l.strip() for l in open("$log") if l.startswith("  harness=")][:6]}
json.dump(m,open(p,"w"),indent=1)
PY
echo "$name $tier exit=$code"
