#!/bin/bash
# usage: confirm_seed.sh <worktree> <property-id> <seed-name>
# Independently confirms a seeded change produced by a sub-agent and stores it under /verif/seeded/<seed-name>/.
set -u
wt=$1; id=$2; name=$3
export GOFLAGS=-mod=mod GOPROXY=off GOSUMDB=off GOTOOLCHAIN=local
out=/verif/seeded/$name; mkdir -p $out
cd $wt || exit 2
git checkout -q go.mod go.sum 2>/dev/null
demos=$(cat SEED_demo_path.txt | tr '\n' ' ')
git diff -- . ':!go.mod' ':!go.sum' > $out/patch.diff
[ -s $out/patch.diff ] || { echo "empty patch"; exit 2; }
for d in $demos; do mkdir -p $out/demo/$(dirname $d); cp $d $out/demo/$d; done
# 1. existing tests with the change, demo moved aside
mkdir -p /var/tmp/demo-aside.$$; for d in $demos; do mv $d /var/tmp/demo-aside.$$/$(echo $d | tr / _); done
go build ./... > $out/log_build.txt 2>&1; b=$?
go test -vet=off -count=1 ./lang/... ./lib/... > $out/log_tests_with_change.txt 2>&1; t=$?
for d in $demos; do mv /var/tmp/demo-aside.$$/$(echo $d | tr / _) $d; done; rmdir /var/tmp/demo-aside.$$
pk=$(for d in $demos; do echo ./$(dirname $d); done | sort -u | tr '\n' ' ')
# 2. demo with the change
go test -vet=off -count=1 $pk > $out/log_demo_with_change.txt 2>&1; dw=$?
# 3. demo without the change
git apply -R $out/patch.diff
go test -vet=off -count=1 $pk > $out/log_demo_without_change.txt 2>&1; dn=$?
git apply $out/patch.diff
git checkout -q go.mod go.sum 2>/dev/null
echo "build=$b tests_with_change=$t demo_with_change=$dw demo_without_change=$dn"
python3 - <<PY
import json
json.dump({"property":"$id","seed":"$name","build_exit":$b,"existing_tests_exit_with_change":$t,"demo_exit_with_change":$dw,"demo_exit_without_change":$dn,
 "confirmed": ($b==0 and $t==0 and $dw!=0 and $dn==0),
 "ran":["go build ./...","go test -vet=off -count=1 ./lang/... ./lib/... (demo moved aside)","go test -vet=off -count=1 $pk (with change: must fail)","git apply -R patch.diff; go test -vet=off -count=1 $pk (must pass)"],
 "demo_files":"$demos".split()}, open("$out/meta.json","w"), indent=1)
PY
